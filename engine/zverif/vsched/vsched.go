// Package vsched is the controlled scheduler of the /verif model-checking engine.
//
// The instrumented Grits code calls Go/Send/Recv/Select/Close instead of using the Go
// statements directly. All channels stay real Go channels; vsched only decides when an
// operation may happen (it predicts enabledness from len/cap, its own closed-set and the
// parked peers) and then lets the real operation run. Exactly one task runs at a time.
//
// With no scheduler installed (Run not active) every call degrades to the plain Go operation.
package vsched

import (
	"fmt"
	"hash/fnv"
	"reflect"
	"runtime"
	"runtime/debug"
	"sort"
	"strings"
	"sync"
	"sync/atomic"
)

type opKind int

const (
	opStart opKind = iota
	opSend
	opRecv
	opSelect
	opYield
	opSleep
	opWait
)

var opNames = map[opKind]string{opStart: "start", opSend: "send", opRecv: "recv", opSelect: "select", opYield: "cont", opSleep: "sleep", opWait: "wait"}

// CaseDesc describes one channel operation a task is asking for.
type CaseDesc struct {
	Env  bool // channel carries no session data (heartbeat, ctx.Done, monitor, timer)
	Send bool
	Key  uintptr // channel identity (0 = nil channel)
	Cap  int
	Elem string
	ch   reflect.Value
	val  reflect.Value // value to send (free-running select fallback only)
}

type request struct {
	kind   opKind
	cases  []CaseDesc
	hasDef bool
	until  int64
	pred   func() bool
	what   string
}

type task struct {
	id         int
	name       string
	wake       chan int
	req        *request
	done       bool
	panicV     interface{}
	panicSt    string
	yieldAfter bool
	yieldEnv   bool // the pending continuation follows a transparent rendezvous
	started    bool
	lastStep   *Step
}

// Choice is one enabled transition: task, case index (-1 = default), partner (task*1000+case, -1 none).
type Choice struct {
	Task, Case, Partner int
}

type Point struct {
	Enabled []Choice
	Running int
	Chosen  int
	FP      uint64
}

// Step is one executed atomic block, with the footprint needed for partial-order reduction.
type Step struct {
	Task, Partner int
	Point         int              // index into Points (the choice that started this block)
	Data          map[uintptr]int  // DATA accesses: chan -> 1 send, 2 recv, 3 close/other
	Post          map[uintptr]bool // channels (unbuffered) the block ended parked on
	Poll          map[uintptr]bool // channels polled by a select with default
	Spawned       []int
	Prints        []int // indices into Events
}

// Event is an observable event (a captured print line).
type Event struct {
	Task int
	Step int // index into Steps of the block that emitted it (-1 if none)
	Text string
}

type timer struct {
	when int64
	fire func()
	seq  int
	dead bool
}

// Blocked describes a task that is still alive at a given moment.
type Blocked struct {
	Task  int
	Name  string
	Op    string // start, send, recv, select, wait, sleep
	Cases []CaseInfo
	Def   bool
}

type CaseInfo struct {
	Send   bool
	Env    bool
	Nil    bool
	Cap    int
	Len    int
	Closed bool
	Elem   string
	Key    uintptr
}

type Sched struct {
	tasks    []*task
	parked   chan *task
	active   int
	closed   map[uintptr]bool
	keep     []interface{}
	prefix   []int
	Now      int64
	timers   []*timer
	tseq     int
	running  int
	lastRun  int
	aborted  int32
	wg       sync.WaitGroup
	Points   []Point
	Steps    []*Step
	Events   []Event
	curStep  *Step
	Opts     Options
	quiesced bool
	frozen   bool
	Quiesce  []Blocked
	Notes    []string
	err      string
	outBytes int
}

type Options struct {
	MaxSteps      int
	NoTransparent bool
	// FreezeAfterQuiesce: once virtual time has advanced for the first time, no further choice
	// points are recorded (the default choice is taken) until Branching(true) is called.
	FreezeAfterQuiesce bool
	// Chooser, if set, picks the index among enabled choices at point number len(Points)
	// once the prefix is exhausted (default: 0).
	Chooser func(pt int, enabled []Choice) int
}

var cur *Sched

func Active() bool { return cur != nil }

type abortT struct{}

func (s *Sched) isAborted() bool { return atomic.LoadInt32(&s.aborted) != 0 }

func (s *Sched) park(t *task, r *request) int {
	if s.isAborted() {
		runtime.Goexit()
	}
	t.req = r
	if st := s.curStep; st != nil && (st.Task == t.id || st.Partner == t.id) {
		for _, c := range r.cases {
			if c.Key == 0 || c.Env {
				continue
			}
			if r.kind == opSelect && r.hasDef {
				st.Poll[c.Key] = true
			} else if c.Cap == 0 {
				st.Post[c.Key] = true
			}
		}
	}
	s.parked <- t
	v := <-t.wake
	if v == -2 {
		runtime.Goexit()
	}
	t.req = nil
	return v
}

// Go starts a new task. name identifies the kind of task (the called function).
func Go(name string, f func()) {
	s := cur
	if s == nil {
		go f()
		return
	}
	if s.isAborted() {
		runtime.Goexit()
	}
	t := &task{id: len(s.tasks), name: name, wake: make(chan int, 1)}
	s.tasks = append(s.tasks, t)
	if s.curStep != nil {
		s.curStep.Spawned = append(s.curStep.Spawned, t.id)
	}
	t.req = &request{kind: opStart, what: "start"}
	s.wg.Add(1)
	go func() {
		defer s.wg.Done()
		v := <-t.wake
		if v == -2 {
			t.done = true
			return
		}
		t.req = nil
		t.started = true
		defer func() {
			if r := recover(); r != nil {
				t.panicV = r
				t.panicSt = string(debug.Stack())
			}
			t.done = true
			t.req = nil
			if !s.isAborted() {
				s.parked <- t
			}
		}()
		f()
	}()
}

func chDesc(ch interface{}, send bool) CaseDesc {
	v := reflect.ValueOf(ch)
	et := v.Type().Elem()
	if v.IsNil() {
		return CaseDesc{Send: send, Key: 0, Elem: et.String()}
	}
	es := et.String()
	env := es == "struct {}" || et.Name() == "MonitorUpdate" || es == "time.Time"
	return CaseDesc{Send: send, Key: v.Pointer(), Cap: v.Cap(), ch: v, Env: env, Elem: es}
}

func (s *Sched) self() *task { return s.tasks[s.running] }

// PreSend asks for permission to send on ch; the caller then performs the real send and calls PostOp.
func PreSend[T any](ch chan T) *SelTok {
	s := cur
	if s == nil {
		return &SelTok{free: true}
	}
	t := s.self()
	if ch == nil {
		s.Notes = append(s.Notes, fmt.Sprintf("task %d (%s): send on nil channel", t.id, t.name))
	}
	s.park(t, &request{kind: opSend, cases: []CaseDesc{chDesc(ch, true)}, what: "send"})
	return &SelTok{t: t}
}

// Live reports whether the real channel operation of a select case still has to be performed
// (false in free-running mode, where reflect.Select already did it).
func Live(tk *SelTok) bool { return !tk.free }

// PostOp ends a granted channel operation.
func PostOp(tk *SelTok) {
	if tk.free {
		return
	}
	cur.afterOp(tk.t)
}

func Recv[T any](ch chan T) T {
	v, _ := Recv2(ch)
	return v
}

func Recv2[T any](ch chan T) (T, bool) {
	s := cur
	if s == nil {
		v, ok := <-ch
		return v, ok
	}
	t := s.self()
	if ch == nil {
		s.Notes = append(s.Notes, fmt.Sprintf("task %d (%s): receive on nil channel", t.id, t.name))
	}
	s.park(t, &request{kind: opRecv, cases: []CaseDesc{chDesc(ch, false)}, what: "recv"})
	v, ok := <-ch
	if !ok {
		s.Notes = append(s.Notes, fmt.Sprintf("task %d (%s): receive on closed channel (%s)", t.id, t.name, reflect.TypeOf(ch).Elem()))
	}
	s.afterOp(t)
	return v, ok
}

func (s *Sched) afterOp(t *task) {
	if t.yieldAfter {
		t.yieldAfter = false
		s.park(t, &request{kind: opYield, what: "cont"})
	}
}

func Close[T any](ch chan T) {
	s := cur
	if s != nil && ch != nil {
		if s.isAborted() {
			runtime.Goexit()
		}
		k := reflect.ValueOf(ch).Pointer()
		s.closed[k] = true
		s.keep = append(s.keep, ch)
		var zero T
		if st := s.curStep; st != nil && !isEnvType(reflect.TypeOf(zero)) {
			st.Data[k] = 3
		}
	}
	close(ch)
}

func isEnvType(t reflect.Type) bool {
	if t == nil {
		return false
	}
	es := t.String()
	return es == "struct {}" || t.Name() == "MonitorUpdate" || es == "time.Time"
}

// SelCase is one case of a rewritten select statement.
type SelCase struct{ d CaseDesc }

func SendCase[T any](ch chan T, v any) SelCase {
	d := chDesc(ch, true)
	et := reflect.TypeOf(ch).Elem()
	rv := reflect.ValueOf(v)
	if rv.IsValid() && rv.Type().ConvertibleTo(et) {
		d.val = rv.Convert(et)
	} else {
		d.val = reflect.Zero(et)
	}
	return SelCase{d}
}
func RecvCase[T any](ch chan T) SelCase { return SelCase{chDesc(ch, false)} }

// SelTok is handed from Select to the SendNow/RecvNow call of the chosen case.
type SelTok struct {
	t    *task
	free bool
	rv   reflect.Value
	ok   bool
}

func Select(hasDefault bool, cases ...SelCase) (*SelTok, int) {
	s := cur
	if s == nil {
		rc := make([]reflect.SelectCase, 0, len(cases)+1)
		for _, c := range cases {
			if c.d.Key == 0 {
				rc = append(rc, reflect.SelectCase{Dir: reflect.SelectRecv, Chan: reflect.Value{}})
				continue
			}
			if c.d.Send {
				rc = append(rc, reflect.SelectCase{Dir: reflect.SelectSend, Chan: c.d.ch, Send: c.d.val})
			} else {
				rc = append(rc, reflect.SelectCase{Dir: reflect.SelectRecv, Chan: c.d.ch})
			}
		}
		if hasDefault {
			rc = append(rc, reflect.SelectCase{Dir: reflect.SelectDefault})
		}
		i, rv, ok := reflect.Select(rc)
		if hasDefault && i == len(cases) {
			return &SelTok{free: true}, -1
		}
		return &SelTok{free: true, rv: rv, ok: ok}, i
	}
	t := s.self()
	ds := make([]CaseDesc, len(cases))
	for i, c := range cases {
		ds[i] = c.d
	}
	return &SelTok{t: t}, s.park(t, &request{kind: opSelect, cases: ds, hasDef: hasDefault, what: "select"})
}

func RecvNow[T any](tk *SelTok, ch chan T) T {
	v, _ := RecvNow2(tk, ch)
	return v
}

func RecvNow2[T any](tk *SelTok, ch chan T) (T, bool) {
	if tk.free {
		var zero T
		if !tk.rv.IsValid() {
			return zero, tk.ok
		}
		return tk.rv.Interface().(T), tk.ok
	}
	v, ok := <-ch
	if !ok {
		var zero T
		if s := cur; s != nil && !isEnvType(reflect.TypeOf(zero)) {
			s.Notes = append(s.Notes, fmt.Sprintf("task %d (%s): receive on closed channel in select (%s)", tk.t.id, tk.t.name, reflect.TypeOf(ch).Elem()))
		}
	}
	cur.afterOp(tk.t)
	return v, ok
}

// Print captures output written through the vfmt shim.
func Print(text string) bool {
	s := cur
	if s == nil {
		return false
	}
	if s.outBytes > 1<<20 {
		return true
	}
	s.outBytes += len(text)
	ev := Event{Task: s.running, Step: len(s.Steps) - 1, Text: text}
	if s.curStep != nil {
		s.curStep.Prints = append(s.curStep.Prints, len(s.Events))
	}
	s.Events = append(s.Events, ev)
	return true
}

// Branching re-enables (or disables) the recording of choice points; used by drivers that run
// several programs one after another inside one scheduler instance.
func Branching(on bool) {
	if s := cur; s != nil {
		s.frozen = !on
	}
}

// NumTasks / NumEvents let a driver mark epochs inside one execution (C19).
func NumTasks() int {
	if s := cur; s != nil {
		return len(s.tasks)
	}
	return 0
}
func NumEvents() int {
	if s := cur; s != nil {
		return len(s.Events)
	}
	return 0
}

// ---- virtual time ----

func SleepNS(d int64) {
	s := cur
	if s == nil || d <= 0 {
		return
	}
	t := s.self()
	s.park(t, &request{kind: opSleep, until: s.Now + d, what: "sleep"})
}

type TimerHandle = *timer

func AddTimer(d int64, fire func()) TimerHandle {
	s := cur
	s.tseq++
	tm := &timer{when: s.Now + d, fire: fire, seq: s.tseq}
	s.timers = append(s.timers, tm)
	return tm
}
func StopTimer(tm TimerHandle) bool { was := !tm.dead; tm.dead = true; return was }
func NowNS() int64 {
	if cur == nil {
		return 0
	}
	return cur.Now
}

// WaitUntil parks the calling task until pred() holds (WaitGroup, Mutex shims).
func WaitUntil(pred func() bool, what string) {
	s := cur
	if s == nil {
		panic("vsched.WaitUntil outside scheduler")
	}
	if pred() {
		return
	}
	t := s.self()
	s.park(t, &request{kind: opWait, pred: pred, what: what})
}

// ---- scheduler core ----

func (s *Sched) enabledChoices() []Choice {
	var out []Choice
	type w struct{ task, cs int }
	senders := map[uintptr][]w{}
	receivers := map[uintptr][]w{}
	for _, t := range s.tasks {
		if t.done || t.req == nil {
			continue
		}
		if t.req.kind == opSend || t.req.kind == opRecv || t.req.kind == opSelect {
			for ci, c := range t.req.cases {
				if c.Key == 0 || c.Cap != 0 {
					continue
				}
				if c.Send {
					senders[c.Key] = append(senders[c.Key], w{t.id, ci})
				} else {
					receivers[c.Key] = append(receivers[c.Key], w{t.id, ci})
				}
			}
		}
	}
	order := make([]*task, 0, len(s.tasks))
	if s.lastRun >= 0 && s.lastRun < len(s.tasks) {
		order = append(order, s.tasks[s.lastRun])
	}
	for _, t := range s.tasks {
		if t.id != s.lastRun {
			order = append(order, t)
		}
	}
	for _, t := range order {
		if t.done || t.req == nil {
			continue
		}
		r := t.req
		switch r.kind {
		case opStart, opYield:
			out = append(out, Choice{t.id, 0, -1})
		case opSleep:
			if s.Now >= r.until {
				out = append(out, Choice{t.id, 0, -1})
			}
		case opWait:
			if r.pred() {
				out = append(out, Choice{t.id, 0, -1})
			}
		case opSend, opRecv, opSelect:
			any := false
			for ci, c := range r.cases {
				if c.Key == 0 {
					continue
				}
				if c.Send {
					if s.closed[c.Key] {
						out = append(out, Choice{t.id, ci, -1})
						any = true
						continue
					}
					if c.Cap > 0 {
						if c.ch.Len() < c.Cap {
							out = append(out, Choice{t.id, ci, -1})
							any = true
						}
						continue
					}
					for _, rv := range receivers[c.Key] {
						if rv.task != t.id {
							out = append(out, Choice{t.id, ci, rv.task*1000 + rv.cs})
							any = true
						}
					}
				} else {
					if c.Cap > 0 && c.ch.Len() > 0 {
						out = append(out, Choice{t.id, ci, -1})
						any = true
						continue
					}
					if s.closed[c.Key] {
						out = append(out, Choice{t.id, ci, -1})
						any = true
						continue
					}
					if c.Cap == 0 {
						for _, sv := range senders[c.Key] {
							if sv.task != t.id {
								out = append(out, Choice{t.id, ci, sv.task*1000 + sv.cs})
								any = true
							}
						}
					}
				}
			}
			if !any && r.kind == opSelect && r.hasDef {
				out = append(out, Choice{t.id, -1, -1})
			}
		}
	}
	return out
}

// TaskResult describes one task at the end of the execution.
type TaskResult struct {
	ID      int
	Name    string
	Done    bool
	Started bool
	Panic   string
	Stack   string
}

type Result struct {
	Events   []Event
	Points   []Point
	Choices  []int
	Steps    []*Step
	Tasks    []TaskResult
	Panics   []string
	Quiesce  []Blocked // live tasks just before virtual time first advanced (or at the end)
	Final    []Blocked // live tasks at the very end of the execution
	Notes    []string  // receive-on-closed, nil-channel operations, ...
	MainDone bool
	NSteps   int
	Err      string // engine-level problem: step budget, replay divergence
	TimeAdv  int    // number of virtual clock advances
}

func (s *Sched) snapshot() []Blocked {
	var out []Blocked
	for _, t := range s.tasks {
		if t.done || t.req == nil {
			continue
		}
		b := Blocked{Task: t.id, Name: t.name, Op: opNames[t.req.kind], Def: t.req.hasDef}
		if t.req.kind == opWait {
			b.Op = "wait:" + t.req.what
		}
		for _, c := range t.req.cases {
			ci := CaseInfo{Send: c.Send, Env: c.Env, Nil: c.Key == 0, Cap: c.Cap, Elem: c.Elem, Key: c.Key}
			if c.Key != 0 {
				ci.Len = c.ch.Len()
				ci.Closed = s.closed[c.Key]
			}
			b.Cases = append(b.Cases, ci)
		}
		out = append(out, b)
	}
	return out
}

func (s *Sched) fingerprint(en []Choice) uint64 {
	h := fnv.New64a()
	var parts []string
	for _, t := range s.tasks {
		if t.done || t.req == nil {
			continue
		}
		var b strings.Builder
		b.WriteString(t.name)
		b.WriteByte(':')
		b.WriteString(opNames[t.req.kind])
		for _, c := range t.req.cases {
			if c.Env {
				continue
			}
			l := 0
			if c.Key != 0 && c.Cap > 0 {
				l = c.ch.Len()
			}
			fmt.Fprintf(&b, "/%v,%d,%d,%v", c.Send, c.Cap, l, s.closed[c.Key])
		}
		parts = append(parts, b.String())
	}
	sort.Strings(parts)
	for _, p := range parts {
		h.Write([]byte(p))
		h.Write([]byte{0})
	}
	var ev []string
	for _, e := range s.Events {
		ev = append(ev, e.Text)
	}
	sort.Strings(ev)
	for _, e := range ev {
		h.Write([]byte(e))
	}
	fmt.Fprintf(h, "|%d", len(en))
	return h.Sum64()
}

// Run executes main under the scheduler, following prefix and then choice 0 (or opts.Chooser).
func Run(prefix []int, opts Options, main func()) *Result {
	if opts.MaxSteps == 0 {
		opts.MaxSteps = 200000
	}
	s := &Sched{parked: make(chan *task, 4096), closed: map[uintptr]bool{}, prefix: prefix, lastRun: -1, Opts: opts}
	cur = s
	Go("main", main)
	res := &Result{}
	steps := 0
	for {
		for s.active > 0 {
			<-s.parked
			s.active--
		}
		en := s.enabledChoices()
		if len(en) == 0 {
			var next *timer
			for _, tm := range s.timers {
				if tm.dead {
					continue
				}
				if next == nil || tm.when < next.when || (tm.when == next.when && tm.seq < next.seq) {
					next = tm
				}
			}
			var sleepMin int64 = -1
			for _, t := range s.tasks {
				if !t.done && t.req != nil && t.req.kind == opSleep {
					if sleepMin < 0 || t.req.until < sleepMin {
						sleepMin = t.req.until
					}
				}
			}
			if next == nil && sleepMin < 0 {
				break
			}
			if !s.quiesced {
				s.quiesced = true
				s.Quiesce = s.snapshot()
			}
			res.TimeAdv++
			if opts.FreezeAfterQuiesce {
				s.frozen = true
			}
			if next != nil && (sleepMin < 0 || next.when <= sleepMin) {
				if next.when > s.Now {
					s.Now = next.when
				}
				next.dead = true
				next.fire()
				continue
			}
			s.Now = sleepMin
			continue
		}
		steps++
		if steps > opts.MaxSteps {
			res.Err = "step budget exceeded"
			break
		}
		if !opts.NoTransparent {
			if ti := s.transparent(en); ti >= 0 {
				s.grant(en[ti], false)
				continue
			}
		}
		if s.frozen {
			s.grant(en[0], false)
			continue
		}
		idx := 0
		pt := len(s.Points)
		if pt < len(s.prefix) {
			idx = s.prefix[pt]
			if idx < 0 || idx >= len(en) {
				res.Err = fmt.Sprintf("replay divergence at point %d: choice %d of %d", pt, idx, len(en))
				break
			}
		} else if opts.Chooser != nil {
			idx = opts.Chooser(pt, en)
			if idx < 0 || idx >= len(en) {
				idx = 0
			}
		}
		s.Points = append(s.Points, Point{Enabled: en, Running: s.lastRun, Chosen: idx, FP: s.fingerprint(en)})
		s.grant(en[idx], true)
	}
	if !s.quiesced {
		s.Quiesce = s.snapshot()
	}
	res.Final = s.snapshot()
	res.Quiesce = s.Quiesce
	res.NSteps = steps
	res.Events = s.Events
	res.Steps = s.Steps
	res.Points = s.Points
	res.Notes = s.Notes
	for _, p := range s.Points {
		res.Choices = append(res.Choices, p.Chosen)
	}
	res.MainDone = s.tasks[0].done
	// abort everything that is still parked and wait until all goroutines are gone
	atomic.StoreInt32(&s.aborted, 1)
	for _, t := range s.tasks {
		if !t.done && t.req != nil {
			select {
			case t.wake <- -2:
			default:
			}
		}
	}
	s.wg.Wait()
	for _, t := range s.tasks {
		tr := TaskResult{ID: t.id, Name: t.name, Done: t.done, Started: t.started}
		if t.panicV != nil {
			tr.Panic = fmt.Sprint(t.panicV)
			tr.Stack = t.panicSt
			res.Panics = append(res.Panics, fmt.Sprintf("task %d (%s): %v", t.id, t.name, t.panicV))
		}
		res.Tasks = append(res.Tasks, tr)
	}
	cur = nil
	return res
}

func (s *Sched) grant(ch Choice, visible bool) {
	t := s.tasks[ch.Task]
	if visible {
		s.lastRun = t.id
		st := &Step{Task: t.id, Partner: -1, Point: len(s.Points) - 1, Data: map[uintptr]int{}, Post: map[uintptr]bool{}, Poll: map[uintptr]bool{}}
		if t.req != nil && ch.Case >= 0 && ch.Case < len(t.req.cases) {
			c := t.req.cases[ch.Case]
			if !c.Env {
				if ch.Partner >= 0 {
					st.Data[c.Key] = 3
				} else if c.Send {
					st.Data[c.Key] = 1
				} else {
					st.Data[c.Key] = 2
				}
			}
		}
		if t.req != nil && t.req.kind == opSelect && t.req.hasDef {
			for _, c := range t.req.cases {
				if c.Key != 0 && !c.Env {
					st.Poll[c.Key] = true
				}
			}
		}
		if ch.Partner >= 0 {
			st.Partner = ch.Partner / 1000
		}
		s.Steps = append(s.Steps, st)
		s.curStep = st
		t.lastStep = st
		if ch.Partner >= 0 {
			s.tasks[ch.Partner/1000].lastStep = st
		}
	} else {
		s.curStep = t.lastStep
	}
	s.running = t.id
	s.active = 1
	if ch.Partner >= 0 {
		p := s.tasks[ch.Partner/1000]
		p.yieldAfter = true
		p.yieldEnv = !visible
		s.active = 2
		p.wake <- ch.Partner % 1000
	}
	t.wake <- ch.Case
}

func (s *Sched) transparent(en []Choice) int {
	for i, c := range en {
		r := s.tasks[c.Task].req
		if r.kind == opYield && s.tasks[c.Task].yieldEnv {
			return i
		}
		if r.kind != opSend && r.kind != opRecv && r.kind != opSelect {
			continue
		}
		all := len(r.cases) > 0
		for _, cs := range r.cases {
			if !cs.Env {
				all = false
			}
		}
		if all {
			return i
		}
	}
	return -1
}
