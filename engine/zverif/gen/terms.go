package gen

import (
	"fmt"
	"sort"
	"strings"

	"grits/zverif/ref"
)

// ---- E-term: type-directed bounded proof enumeration, closed by canonical harnesses ----

// PoolType is a closed type of the generator's pool with its generic provider/consumer.
type PoolType struct {
	Key  string // identifier-safe name
	Text string // concrete syntax
	Ty   *ref.Ty
}

func mustType(text string) *ref.Ty {
	p, err := ref.ParseProgram("type T = " + text)
	if err != nil {
		panic(err)
	}
	return p.Env.Defs[0].Body.T
}

var Pool = []PoolType{
	{Key: "U", Text: "1"},
	{Key: "P", Text: "1 * 1"},
	{Key: "L", Text: "1 -* 1"},
	{Key: "S", Text: "+{l : 1, r : 1}"},
	{Key: "W", Text: "&{l : 1, r : 1}"},
	{Key: "D", Text: "rep \\/ rep 1"},
	{Key: "G", Text: "rep /\\ rep 1"},
}

func init() {
	for i := range Pool {
		Pool[i].Ty = mustType(Pool[i].Text)
	}
}

func poolByKey(k string) *PoolType {
	for i := range Pool {
		if Pool[i].Key == k {
			return &Pool[i]
		}
	}
	return nil
}

func keyOf(t *ref.Ty) string {
	s := t.String()
	for _, p := range Pool {
		if p.Ty.String() == s {
			return p.Key
		}
	}
	return ""
}

// helper constructors
func tm(k ref.TmKind) *ref.Tm { return &ref.Tm{K: k} }
func closeSelf() *ref.Tm      { return &ref.Tm{K: ref.TClose, X: "self"} }
func waitT(x string, c *ref.Tm) *ref.Tm {
	return &ref.Tm{K: ref.TWait, X: x, Cont: c}
}
func printT(l string, c *ref.Tm) *ref.Tm { return &ref.Tm{K: ref.TPrint, Label: l, Cont: c} }
func newCall(x, fn string, args []string, c *ref.Tm) *ref.Tm {
	return &ref.Tm{K: ref.TNew, X: x, Body: &ref.Tm{K: ref.TCall, Fn: fn, Args: args}, Cont: c}
}
func newAx(x string, ty string, body, c *ref.Tm) *ref.Tm {
	a := ref.AnnTy{T: mustType(ty)}
	return &ref.Tm{K: ref.TNew, X: x, Ty: &a, Body: body, Cont: c}
}

type ctxEntry struct {
	name string
	key  string
}

type sequent struct {
	gamma []ctxEntry
	goal  string
}

type genState struct {
	out   []*ref.Tm
	names []string
}

// genTerms enumerates all terms P with gamma |- P :: (self : goal) of at most size rule applications.
// Names of binders are drawn from names with reuse allowed whenever the name is not currently in gamma.
func genTerms(gamma []ctxEntry, goal string, size int, names []string) []*ref.Tm {
	if size <= 0 {
		return nil
	}
	var out []*ref.Tm
	has := func(n string) bool {
		for _, e := range gamma {
			if e.name == n {
				return true
			}
		}
		return false
	}
	freshNames := func(k int) [][]string {
		var av []string
		for _, n := range names {
			if !has(n) {
				av = append(av, n)
			}
		}
		var res [][]string
		if k == 1 {
			for _, a := range av {
				res = append(res, []string{a})
				break // binders are alpha-equivalent: first available name suffices ...
			}
			// ... except that reusing a just-consumed name is a different collision pattern: add the last available too
			if len(av) > 1 {
				res = append(res, []string{av[len(av)-1]})
			}
			return res
		}
		if len(av) >= 2 {
			res = append(res, []string{av[0], av[1]})
			if len(av) > 2 {
				res = append(res, []string{av[len(av)-1], av[0]})
			}
		}
		return res
	}
	without := func(n string) []ctxEntry {
		var g []ctxEntry
		for _, e := range gamma {
			if e.name != n {
				g = append(g, e)
			}
		}
		return g
	}
	// ---- right axioms ----
	switch goal {
	case "U":
		if len(gamma) == 0 {
			out = append(out, closeSelf())
		}
	case "P":
		if len(gamma) == 2 && gamma[0].key == "U" && gamma[1].key == "U" {
			out = append(out, &ref.Tm{K: ref.TSend, X: "self", Y: gamma[0].name, Z: gamma[1].name})
			out = append(out, &ref.Tm{K: ref.TSend, X: "self", Y: gamma[1].name, Z: gamma[0].name})
		}
	case "S":
		if len(gamma) == 1 && gamma[0].key == "U" {
			out = append(out, &ref.Tm{K: ref.TSel, X: "self", Label: "l", Y: gamma[0].name})
			out = append(out, &ref.Tm{K: ref.TSel, X: "self", Label: "r", Y: gamma[0].name})
		}
	case "D":
		if len(gamma) == 1 && gamma[0].key == "U" {
			out = append(out, &ref.Tm{K: ref.TCast, X: "self", Y: gamma[0].name})
		}
	}
	// identity
	if len(gamma) == 1 && gamma[0].key == goal {
		out = append(out, &ref.Tm{K: ref.TFwd, X: "self", Y: gamma[0].name})
	}
	// ---- left axioms (provider is the continuation) ----
	if goal == "U" {
		for _, e := range gamma {
			rest := without(e.name)
			switch e.key {
			case "L":
				if len(rest) == 1 && rest[0].key == "U" {
					out = append(out, &ref.Tm{K: ref.TSend, X: e.name, Y: rest[0].name, Z: "self"})
				}
			case "W":
				if len(rest) == 0 {
					out = append(out, &ref.Tm{K: ref.TSel, X: e.name, Label: "l", Y: "self"})
					out = append(out, &ref.Tm{K: ref.TSel, X: e.name, Label: "r", Y: "self"})
				}
			case "G":
				if len(rest) == 0 {
					out = append(out, &ref.Tm{K: ref.TCast, X: e.name, Y: "self"})
				}
			}
		}
	}
	if size <= 1 {
		return out
	}
	// ---- right rules with continuation ----
	switch goal {
	case "L":
		for _, ns := range freshNames(2) {
			for _, c := range genTerms(append(append([]ctxEntry{}, gamma...), ctxEntry{ns[0], "U"}), "U", size-1, names) {
				// the continuation refers to its provider as self
				out = append(out, &ref.Tm{K: ref.TRecv, X: "self", Y: ns[0], Z: ns[1], Cont: c})
			}
		}
	case "W":
		for _, ns := range freshNames(1) {
			ls := genTerms(gamma, "U", size-1, names)
			for i, cl := range ls {
				// pair the i-th continuation with a rotated one so that branches differ
				cr := ls[(i+1)%len(ls)]
				out = append(out, &ref.Tm{K: ref.TCase, X: "self", Branches: []ref.TmBranch{{Label: "l", Var: ns[0], Body: cl.Copy()}, {Label: "r", Var: ns[0], Body: cr.Copy()}}})
			}
		}
	case "G":
		for _, ns := range freshNames(1) {
			for _, c := range genTerms(gamma, "U", size-1, names) {
				out = append(out, &ref.Tm{K: ref.TShift, X: "self", Y: ns[0], Cont: c})
			}
		}
	}
	// ---- left rules with continuation ----
	for _, e := range gamma {
		rest := without(e.name)
		saved := gamma
		gamma = rest // binders may reuse the consumed name
		switch e.key {
		case "U":
			for _, c := range genTerms(rest, goal, size-1, names) {
				out = append(out, waitT(e.name, c))
			}
		case "P":
			for _, ns := range freshNames(2) {
				for _, c := range genTerms(append(append([]ctxEntry{}, rest...), ctxEntry{ns[0], "U"}, ctxEntry{ns[1], "U"}), goal, size-1, names) {
					out = append(out, &ref.Tm{K: ref.TRecv, X: e.name, Y: ns[0], Z: ns[1], Cont: c})
				}
			}
		case "S":
			for _, ns := range freshNames(1) {
				ls := genTerms(append(append([]ctxEntry{}, rest...), ctxEntry{ns[0], "U"}), goal, size-1, names)
				for i, cl := range ls {
					cr := ls[(i+1)%len(ls)]
					out = append(out, &ref.Tm{K: ref.TCase, X: e.name, Branches: []ref.TmBranch{{Label: "l", Var: ns[0], Body: cl.Copy()}, {Label: "r", Var: ns[0], Body: cr.Copy()}}})
				}
			}
		case "D":
			for _, ns := range freshNames(1) {
				for _, c := range genTerms(append(append([]ctxEntry{}, rest...), ctxEntry{ns[0], "U"}), goal, size-1, names) {
					out = append(out, &ref.Tm{K: ref.TShift, X: e.name, Y: ns[0], Cont: c})
				}
			}
		}
		// structural rules (all pool types are replicable)
		for _, c := range genTerms(rest, goal, size-1, names) {
			out = append(out, &ref.Tm{K: ref.TDrop, X: e.name, Cont: c})
		}
		if size >= 3 {
			for _, ns := range freshNames(2) {
				for _, c := range genTerms(append(append([]ctxEntry{}, rest...), ctxEntry{ns[0], e.key}, ctxEntry{ns[1], e.key}), goal, size-1, names) {
					out = append(out, &ref.Tm{K: ref.TSplit, X: e.name, Y: ns[0], Z: ns[1], Cont: c})
				}
			}
		}
		gamma = saved
	}
	// ---- cut against a generic provider (spawns a fresh channel of a pool type) ----
	if size >= 2 && len(gamma) <= 1 {
		for _, pt := range []string{"U", "L", "S"} {
			for _, ns := range freshNames(1) {
				for _, c := range genTerms(append(append([]ctxEntry{}, gamma...), ctxEntry{ns[0], pt}), goal, size-1, names) {
					out = append(out, newCall(ns[0], "p"+pt, nil, c))
				}
			}
		}
	}
	return out
}

// labelPrints prepends a uniquely labelled print to every continuation position.
func labelPrints(t *ref.Tm, prefix string, n *int) *ref.Tm {
	if t == nil {
		return nil
	}
	wrap := func(c *ref.Tm) *ref.Tm {
		if c == nil {
			return nil
		}
		c = labelPrints(c, prefix, n)
		*n++
		return printT(fmt.Sprintf("%s%d", prefix, *n), c)
	}
	c := *t
	if t.K == ref.TNew {
		c.Cont = wrap(t.Cont)
		return &c
	}
	c.Cont = wrap(t.Cont)
	c.Branches = nil
	for _, b := range t.Branches {
		c.Branches = append(c.Branches, ref.TmBranch{Label: b.Label, Var: b.Var, Body: wrap(b.Body)})
	}
	return &c
}

// generic providers and consumers
var providerSrc = map[string][]string{
	"U": {"let pU() : 1 = print pU; close self"},
	"P": {"let pP() : 1 * 1 = a <- new pU(); b <- new pU(); send self<a, b>"},
	"L": {"let pL() : 1 -* 1 = <a, k> <- recv self; wait a; print pL; close k"},
	"S": {"let pS() : +{l : 1, r : 1} = a <- new pU(); print pSl; self.l<a>", "let pS() : +{l : 1, r : 1} = a <- new pU(); print pSr; self.r<a>"},
	"W": {"let pW() : &{l : 1, r : 1} = case self (l<k> => print pWl; close k | r<k> => print pWr; close k)"},
	"D": {"let pD() : rep \\/ rep 1 = a <- new pU(); cast self<a>"},
	"G": {"let pG() : rep /\\ rep 1 = k <- shift self; print pG; close k"},
}

var consumerSrc = map[string][]string{
	"U": {"let cons(x : 1) : 1 = wait x; print cU; close self"},
	"P": {"let cons(x : 1 * 1) : 1 = <a, b> <- recv x; wait a; wait b; print cP; close self"},
	"L": {"let cons(x : 1 -* 1) : 1 = a <- new pU(); r : 1 <- new send x<a, self>; wait r; print cL; close self"},
	"S": {"let cons(x : +{l : 1, r : 1}) : 1 = case x (l<a> => wait a; print cSl; close self | r<a> => wait a; print cSr; close self)"},
	"W": {"let cons(x : &{l : 1, r : 1}) : 1 = r : 1 <- new x.l<self>; wait r; print cWl; close self", "let cons(x : &{l : 1, r : 1}) : 1 = r : 1 <- new x.r<self>; wait r; print cWr; close self"},
	"D": {"let cons(x : rep \\/ rep 1) : 1 = a <- shift x; wait a; print cD; close self"},
	"G": {"let cons(x : rep /\\ rep 1) : 1 = r : 1 <- new cast x<self>; wait r; print cG; close self"},
}

// GenProgram is one generated closed program.
type GenProgram struct {
	Name string
	Text string
}

// Sequents of the generator: contexts of at most two pool types and every goal.
func sequents(maxCtx int) []sequent {
	var out []sequent
	keys := []string{"U", "P", "L", "S", "W", "D", "G"}
	names := []string{"x", "y"}
	for _, goal := range keys {
		out = append(out, sequent{nil, goal})
		for _, a := range keys {
			out = append(out, sequent{[]ctxEntry{{names[0], a}}, goal})
			if maxCtx >= 2 {
				for _, b := range keys {
					out = append(out, sequent{[]ctxEntry{{names[0], a}, {names[1], b}}, goal})
				}
			}
		}
	}
	return out
}

// Programs enumerates closed programs: one function per derivation plus the closing harness.
// size bounds the number of rule applications of the derivation; variants enumerates the label
// choices of the generic providers/consumers.
func Programs(size, maxCtx int, allVariants bool) []GenProgram {
	var out []GenProgram
	seen := map[string]bool{}
	for _, sq := range sequents(maxCtx) {
		terms := genTerms(sq.gamma, sq.goal, size, []string{"x", "y", "z", "w"})
		for ti, t := range terms {
			n := 0
			body := labelPrints(t, "q", &n)
			// declarations
			need := map[string]bool{"U": true, "L": true, "S": true}
			for _, e := range sq.gamma {
				need[e.key] = true
			}
			var params []string
			var args []string
			for i, e := range sq.gamma {
				params = append(params, fmt.Sprintf("%s : %s", e.name, poolByKey(e.key).Text))
				args = append(args, fmt.Sprintf("g%d", i))
			}
			fdef := fmt.Sprintf("let f(%s) : %s = %s", strings.Join(params, ", "), poolByKey(sq.goal).Text, body.String())
			if seen[fdef] {
				continue
			}
			seen[fdef] = true
			// variants: provider label choice for S in gamma, consumer label choice for W goal
			pvars := []int{0}
			if need["S"] && allVariants {
				pvars = []int{0, 1}
			}
			cvars := []int{0}
			if sq.goal == "W" {
				cvars = []int{0, 1}
			}
			for _, pv := range pvars {
				for _, cv := range cvars {
					var b strings.Builder
					var ks []string
					for k := range need {
						ks = append(ks, k)
					}
					sort.Strings(ks)
					for _, k := range ks {
						src := providerSrc[k]
						v := 0
						if k == "S" {
							v = pv
						}
						b.WriteString(src[v%len(src)] + "\n")
					}
					cs := consumerSrc[sq.goal]
					b.WriteString(cs[cv%len(cs)] + "\n")
					b.WriteString(fdef + "\n")
					main := "prc[main] : 1 = "
					for i, e := range sq.gamma {
						main += fmt.Sprintf("g%d <- new p%s(); ", i, e.key)
					}
					main += fmt.Sprintf("r <- new f(%s); c <- new cons(r); wait c; print fin; close self\n", strings.Join(args, ", "))
					b.WriteString(main)
					var gk []string
					for _, e := range sq.gamma {
						gk = append(gk, e.key)
					}
					out = append(out, GenProgram{Name: fmt.Sprintf("gen/%s|-%s#%d.%d%d", strings.Join(gk, ","), sq.goal, ti, pv, cv), Text: b.String()})
				}
			}
		}
	}
	return out
}
