package gen

import (
	"sort"

	"grits/zverif/ref"
)

// Mutation is one single edit of a program.
type Mutation struct {
	Desc string
	P    *ref.Program
}

// site enumerates every term node of a program in a fixed order.
func termSites(p *ref.Program, f func(where string, t *ref.Tm)) {
	var walk func(where string, t *ref.Tm)
	walk = func(where string, t *ref.Tm) {
		if t == nil {
			return
		}
		f(where, t)
		walk(where, t.Body)
		walk(where, t.Cont)
		for i := range t.Branches {
			walk(where, t.Branches[i].Body)
		}
	}
	for i := range p.Funcs {
		walk("func "+p.Funcs[i].Name, p.Funcs[i].Body)
	}
	for i := range p.Procs {
		if p.Procs[i].Exec == "" {
			walk("proc", p.Procs[i].Body)
		}
	}
}

func identPool(p *ref.Program) ([]string, []string) {
	ids := map[string]bool{"self": true, "x": true, "y": true}
	labels := map[string]bool{"zz": true}
	termSites(p, func(_ string, t *ref.Tm) {
		for _, n := range []string{t.X, t.Y, t.Z} {
			if n != "" {
				ids[n] = true
			}
		}
		for _, a := range t.Args {
			ids[a] = true
		}
		for _, b := range t.Branches {
			ids[b.Var] = true
			labels[b.Label] = true
		}
		if t.K == ref.TSel {
			labels[t.Label] = true
		}
	})
	for _, f := range p.Funcs {
		for _, q := range f.Params {
			ids[q.Name] = true
		}
	}
	for _, q := range p.Procs {
		for _, n := range q.Names {
			ids[n] = true
		}
	}
	var il, ll []string
	for k := range ids {
		il = append(il, k)
	}
	for k := range labels {
		ll = append(ll, k)
	}
	sort.Strings(il)
	sort.Strings(ll)
	return il, ll
}

// nthTerm returns the n-th term node of (a copy of) p.
func nthTerm(p *ref.Program, n int) *ref.Tm {
	var found *ref.Tm
	i := 0
	termSites(p, func(_ string, t *ref.Tm) {
		if i == n {
			found = t
		}
		i++
	})
	return found
}

func countTerms(p *ref.Program) int {
	n := 0
	termSites(p, func(string, *ref.Tm) { n++ })
	return n
}

// annTypes lists pointers to every annotated type of a program (definitions, signatures, processes, cuts).
func annTypes(p *ref.Program) []*ref.AnnTy {
	var out []*ref.AnnTy
	for i := range p.Env.Defs {
		out = append(out, &p.Env.Defs[i].Body)
	}
	for i := range p.Funcs {
		if p.Funcs[i].Result != nil {
			out = append(out, p.Funcs[i].Result)
		}
		for j := range p.Funcs[i].Params {
			if p.Funcs[i].Params[j].Ty != nil {
				out = append(out, p.Funcs[i].Params[j].Ty)
			}
		}
	}
	for i := range p.Procs {
		if p.Procs[i].Ty != nil {
			out = append(out, p.Procs[i].Ty)
		}
	}
	termSites(p, func(_ string, t *ref.Tm) {
		if t.K == ref.TNew && t.Ty != nil {
			out = append(out, t.Ty)
		}
	})
	return out
}

func tyNodes(t *ref.Ty, f func(*ref.Ty)) {
	if t == nil {
		return
	}
	f(t)
	tyNodes(t.L, f)
	tyNodes(t.R, f)
	for _, b := range t.Br {
		tyNodes(b.T, f)
	}
}

// BinderMutants enumerates only the edits that rename one binding occurrence (receive, split, shift,
// cut, case branch) to another identifier of the program: the collision-seeking subset of Mutants.
func BinderMutants(p *ref.Program) []Mutation {
	var out []Mutation
	ids, _ := identPool(p)
	nT := countTerms(p)
	for n := 0; n < nT; n++ {
		orig := nthTerm(p, n)
		type slot struct {
			get func(t *ref.Tm) *string
			cur string
		}
		var slots []slot
		switch orig.K {
		case ref.TRecv, ref.TSplit:
			slots = append(slots, slot{func(t *ref.Tm) *string { return &t.Y }, orig.Y}, slot{func(t *ref.Tm) *string { return &t.Z }, orig.Z})
		case ref.TShift:
			slots = append(slots, slot{func(t *ref.Tm) *string { return &t.Y }, orig.Y})
		case ref.TNew:
			slots = append(slots, slot{func(t *ref.Tm) *string { return &t.X }, orig.X})
		}
		for _, sl := range slots {
			for _, id := range ids {
				if id == sl.cur || id == "self" {
					continue
				}
				q := p.Copy()
				*sl.get(nthTerm(q, n)) = id
				out = append(out, Mutation{"binder " + sl.cur + "->" + id, q})
			}
		}
		for bi, b := range orig.Branches {
			for _, id := range ids {
				if id == b.Var || id == "self" {
					continue
				}
				q := p.Copy()
				nthTerm(q, n).Branches[bi].Var = id
				out = append(out, Mutation{"branch binder " + b.Var + "->" + id, q})
			}
		}
	}
	return out
}

// Mutants enumerates all single edits of p (deterministic order).
func Mutants(p *ref.Program) []Mutation {
	var out []Mutation
	ids, labels := identPool(p)
	add := func(desc string, q *ref.Program) { out = append(out, Mutation{desc, q}) }
	nT := countTerms(p)
	for n := 0; n < nT; n++ {
		orig := nthTerm(p, n)
		// 1. replace one name occurrence
		slots := []string{"X", "Y", "Z"}
		for si, cur := range []string{orig.X, orig.Y, orig.Z} {
			if cur == "" {
				continue
			}
			for _, id := range ids {
				if id == cur {
					continue
				}
				q := p.Copy()
				t := nthTerm(q, n)
				switch si {
				case 0:
					t.X = id
				case 1:
					t.Y = id
				case 2:
					t.Z = id
				}
				add("name "+slots[si]+" "+cur+"->"+id, q)
			}
		}
		for ai, cur := range orig.Args {
			for _, id := range ids {
				if id == cur {
					continue
				}
				q := p.Copy()
				nthTerm(q, n).Args[ai] = id
				add("arg "+cur+"->"+id, q)
			}
		}
		for bi, b := range orig.Branches {
			for _, id := range ids {
				if id == b.Var {
					continue
				}
				q := p.Copy()
				nthTerm(q, n).Branches[bi].Var = id
				add("branch var "+b.Var+"->"+id, q)
			}
			for _, l := range labels {
				if l == b.Label {
					continue
				}
				q := p.Copy()
				nthTerm(q, n).Branches[bi].Label = l
				add("branch label "+b.Label+"->"+l, q)
			}
			// remove / duplicate a branch
			q := p.Copy()
			t := nthTerm(q, n)
			t.Branches = append(append([]ref.TmBranch{}, t.Branches[:bi]...), t.Branches[bi+1:]...)
			add("remove branch "+b.Label, q)
			q = p.Copy()
			t = nthTerm(q, n)
			t.Branches = append(t.Branches, ref.TmBranch{Label: b.Label, Var: b.Var, Body: b.Body.Copy()})
			add("duplicate branch "+b.Label, q)
		}
		// 2. swap payload and continuation
		if orig.Y != "" && orig.Z != "" {
			q := p.Copy()
			t := nthTerm(q, n)
			t.Y, t.Z = t.Z, t.Y
			add("swap Y/Z", q)
		}
		if orig.K == ref.TFwd || orig.K == ref.TSel || orig.K == ref.TCast {
			q := p.Copy()
			t := nthTerm(q, n)
			t.X, t.Y = t.Y, t.X
			add("swap X/Y", q)
		}
		// 3. labels
		if orig.K == ref.TSel {
			for _, l := range labels {
				if l != orig.Label {
					q := p.Copy()
					nthTerm(q, n).Label = l
					add("select label "+orig.Label+"->"+l, q)
				}
			}
		}
		// 4. remove this node (splice its continuation)
		if orig.Cont != nil && orig.K != ref.TNew {
			q := p.Copy()
			t := nthTerm(q, n)
			*t = *t.Cont
			add("remove "+orig.String()[:min(12, len(orig.String()))], q)
		}
		// 5. duplicate drop/wait/print node; insert drop/split in front of any node
		if orig.K == ref.TDrop || orig.K == ref.TWait {
			q := p.Copy()
			t := nthTerm(q, n)
			c := t.Copy()
			t.Cont = c
			add("duplicate node", q)
		}
		for _, id := range ids {
			if id == "self" {
				continue
			}
			q := p.Copy()
			t := nthTerm(q, n)
			c := t.Copy()
			*t = ref.Tm{K: ref.TDrop, X: id, Cont: c}
			add("insert drop "+id, q)
			q = p.Copy()
			t = nthTerm(q, n)
			c = t.Copy()
			*t = ref.Tm{K: ref.TSplit, X: id, Y: id, Z: "q" + id, Cont: c}
			add("insert split "+id, q)
		}
		// 6. call arity
		if orig.K == ref.TCall {
			q := p.Copy()
			t := nthTerm(q, n)
			t.Args = append([]string{"self"}, t.Args...)
			add("call: add self", q)
			if len(orig.Args) > 0 {
				q = p.Copy()
				t = nthTerm(q, n)
				t.Args = t.Args[1:]
				add("call: drop first argument", q)
				q = p.Copy()
				t = nthTerm(q, n)
				t.Args = t.Args[:len(t.Args)-1]
				add("call: drop last argument", q)
				if len(orig.Args) > 1 {
					q = p.Copy()
					t = nthTerm(q, n)
					t.Args[0], t.Args[1] = t.Args[1], t.Args[0]
					add("call: swap arguments", q)
				}
			}
			for _, id := range ids {
				q = p.Copy()
				t = nthTerm(q, n)
				t.Args = append(t.Args, id)
				add("call: extra argument "+id, q)
			}
			for _, f := range p.Funcs {
				if f.Name != orig.Fn {
					q = p.Copy()
					nthTerm(q, n).Fn = f.Name
					add("call: other function "+f.Name, q)
				}
			}
		}
		// 7. cut annotation
		if orig.K == ref.TNew && orig.Ty != nil {
			q := p.Copy()
			nthTerm(q, n).Ty = nil
			add("cut: remove annotation", q)
		}
	}
	// 8. modes and types
	nA := len(annTypes(p))
	var tyPool []*ref.Ty
	tyPool = append(tyPool, ref.Unit())
	for _, d := range p.Env.Defs {
		tyPool = append(tyPool, ref.Name(d.Name))
	}
	for ai := 0; ai < nA; ai++ {
		a := annTypes(p)[ai]
		for _, m := range append([]ref.Mode{ref.MUnset}, ref.Modes4...) {
			if m == a.Ann {
				continue
			}
			q := p.Copy()
			annTypes(q)[ai].Ann = m
			annTypes(q)[ai].AnnStr = ""
			add("annotation "+a.Ann.String()+"->"+m.String(), q)
		}
		for _, nt := range tyPool {
			if nt.String() == a.T.String() {
				continue
			}
			q := p.Copy()
			annTypes(q)[ai].T = nt.Copy()
			add("type "+a.T.String()+"->"+nt.String(), q)
		}
		// shift modes and node kinds inside the type
		cnt := 0
		tyNodes(a.T, func(*ref.Ty) { cnt++ })
		for k := 0; k < cnt; k++ {
			var node *ref.Ty
			i := 0
			tyNodes(a.T, func(t *ref.Ty) {
				if i == k {
					node = t
				}
				i++
			})
			mut := func(desc string, f func(t *ref.Ty)) {
				q := p.Copy()
				i := 0
				tyNodes(annTypes(q)[ai].T, func(t *ref.Ty) {
					if i == k {
						f(t)
					}
					i++
				})
				add(desc, q)
			}
			switch node.K {
			case ref.KUp, ref.KDown:
				for _, m := range ref.Modes4 {
					if m != node.From {
						m := m
						mut("shift from "+m.String(), func(t *ref.Ty) { t.From = m; t.ModeStr = [2]string{} })
					}
					if m != node.To {
						m := m
						mut("shift to "+m.String(), func(t *ref.Ty) { t.To = m; t.ModeStr = [2]string{} })
					}
				}
				mut("flip shift direction", func(t *ref.Ty) {
					if t.K == ref.KUp {
						t.K = ref.KDown
					} else {
						t.K = ref.KUp
					}
				})
			case ref.KTensor:
				mut("tensor->lolli", func(t *ref.Ty) { t.K = ref.KLolli })
				mut("swap operands", func(t *ref.Ty) { t.L, t.R = t.R, t.L })
			case ref.KLolli:
				mut("lolli->tensor", func(t *ref.Ty) { t.K = ref.KTensor })
				mut("swap operands", func(t *ref.Ty) { t.L, t.R = t.R, t.L })
			case ref.KPlus:
				mut("plus->with", func(t *ref.Ty) { t.K = ref.KWith })
				if len(node.Br) > 1 {
					mut("drop last branch of type", func(t *ref.Ty) { t.Br = t.Br[:len(t.Br)-1] })
				}
			case ref.KWith:
				mut("with->plus", func(t *ref.Ty) { t.K = ref.KPlus })
				if len(node.Br) > 1 {
					mut("drop last branch of type", func(t *ref.Ty) { t.Br = t.Br[:len(t.Br)-1] })
				}
			case ref.KName:
				for _, nt := range tyPool {
					if nt.String() != node.String() {
						nt := nt
						mut("name->"+nt.String(), func(t *ref.Ty) { *t = *nt.Copy() })
					}
				}
			case ref.KUnit:
				for _, nt := range tyPool[1:] {
					nt := nt
					mut("1->"+nt.String(), func(t *ref.Ty) { *t = *nt.Copy() })
				}
			}
		}
	}
	// 9. process declarations: add a second provider name; drop a declaration
	for i := range p.Procs {
		if p.Procs[i].Exec != "" {
			continue
		}
		q := p.Copy()
		q.Procs[i].Names = append(q.Procs[i].Names, "extra")
		add("second provider name", q)
	}
	return out
}

func min(a, b int) int {
	if a < b {
		return a
	}
	return b
}
