package gen

import (
	"fmt"
	"sort"
	"strings"

	"grits/zverif/ref"
)

// Renaming is one admissible renaming / permutation of a program.
type Renaming struct {
	Desc     string
	P        *ref.Program
	LabelMap map[string]string // how printed labels are renamed (nil = identity)
}

var reserved = map[string]bool{"send": true, "recv": true, "receive": true, "case": true, "close": true, "wait": true, "cast": true, "shift": true,
	"accept": true, "acc": true, "acquire": true, "acq": true, "detach": true, "det": true, "release": true, "rel": true, "drop": true, "split": true,
	"push": true, "new": true, "snew": true, "forward": true, "fwd": true, "type": true, "let": true, "in": true, "end": true, "sprc": true, "prc": true,
	"self": true, "assuming": true, "exec": true, "print": true, "1": true}

// substFree renames free occurrences of old to nw in t (respecting binders).
func substFree(t *ref.Tm, old, nw string) {
	if t == nil {
		return
	}
	r := func(s *string) {
		if *s == old {
			*s = nw
		}
	}
	switch t.K {
	case ref.TSend:
		r(&t.X)
		r(&t.Y)
		r(&t.Z)
	case ref.TRecv, ref.TSplit:
		r(&t.X)
		if t.Y != old && t.Z != old {
			substFree(t.Cont, old, nw)
		}
	case ref.TSel, ref.TCast, ref.TFwd:
		r(&t.X)
		r(&t.Y)
	case ref.TCase:
		r(&t.X)
		for i := range t.Branches {
			if t.Branches[i].Var != old {
				substFree(t.Branches[i].Body, old, nw)
			}
		}
	case ref.TNew:
		substFree(t.Body, old, nw)
		if t.X != old {
			substFree(t.Cont, old, nw)
		}
	case ref.TCall:
		for i := range t.Args {
			r(&t.Args[i])
		}
	case ref.TClose:
		r(&t.X)
	case ref.TWait, ref.TDrop:
		r(&t.X)
		substFree(t.Cont, old, nw)
	case ref.TShift:
		r(&t.X)
		if t.Y != old {
			substFree(t.Cont, old, nw)
		}
	case ref.TPrint:
		substFree(t.Cont, old, nw)
	}
}

func allNames(t *ref.Tm, into map[string]bool) {
	if t == nil {
		return
	}
	for _, n := range []string{t.X, t.Y, t.Z} {
		if n != "" {
			into[n] = true
		}
	}
	for _, a := range t.Args {
		into[a] = true
	}
	for _, b := range t.Branches {
		into[b.Var] = true
		allNames(b.Body, into)
	}
	allNames(t.Body, into)
	allNames(t.Cont, into)
}

// binderSites enumerates the binding occurrences inside a term: index -> (description)
type binderSite struct {
	node *ref.Tm
	slot int // 1 = Y, 2 = Z, 3 = X of TNew, 10+i = branch i
}

func binders(t *ref.Tm, out *[]binderSite) {
	if t == nil {
		return
	}
	switch t.K {
	case ref.TRecv, ref.TSplit:
		*out = append(*out, binderSite{t, 1}, binderSite{t, 2})
	case ref.TShift:
		*out = append(*out, binderSite{t, 1})
	case ref.TNew:
		*out = append(*out, binderSite{t, 3})
	case ref.TCase:
		for i := range t.Branches {
			*out = append(*out, binderSite{t, 10 + i})
		}
	}
	binders(t.Body, out)
	binders(t.Cont, out)
	for i := range t.Branches {
		binders(t.Branches[i].Body, out)
	}
}

func (b binderSite) name() string {
	switch {
	case b.slot == 1:
		return b.node.Y
	case b.slot == 2:
		return b.node.Z
	case b.slot == 3:
		return b.node.X
	}
	return b.node.Branches[b.slot-10].Var
}

func (b binderSite) rename(nw string) {
	old := b.name()
	switch {
	case b.slot == 1:
		b.node.Y = nw
		// the sibling binder keeps its name; scope is the continuation
		if b.node.Z != old {
			substFree(b.node.Cont, old, nw)
		}
	case b.slot == 2:
		b.node.Z = nw
		substFree(b.node.Cont, old, nw)
	case b.slot == 3:
		b.node.X = nw
		substFree(b.node.Cont, old, nw)
	default:
		br := &b.node.Branches[b.slot-10]
		br.Var = nw
		substFree(br.Body, old, nw)
	}
}

func bodies(p *ref.Program) []**ref.Tm {
	var out []**ref.Tm
	for i := range p.Funcs {
		out = append(out, &p.Funcs[i].Body)
	}
	for i := range p.Procs {
		if p.Procs[i].Exec == "" {
			out = append(out, &p.Procs[i].Body)
		}
	}
	return out
}

func renameTypeName(p *ref.Program, old, nw string) {
	var walk func(t *ref.Ty)
	walk = func(t *ref.Ty) {
		if t == nil {
			return
		}
		if t.K == ref.KName && t.Name == old {
			t.Name = nw
		}
		walk(t.L)
		walk(t.R)
		for _, b := range t.Br {
			walk(b.T)
		}
	}
	for i := range p.Env.Defs {
		if p.Env.Defs[i].Name == old {
			p.Env.Defs[i].Name = nw
		}
	}
	for _, a := range annTypes(p) {
		walk(a.T)
	}
}

func renameLabel(p *ref.Program, old, nw string, printsToo bool) {
	var walk func(t *ref.Ty)
	walk = func(t *ref.Ty) {
		if t == nil {
			return
		}
		for i := range t.Br {
			if t.Br[i].Label == old {
				t.Br[i].Label = nw
			}
			walk(t.Br[i].T)
		}
		walk(t.L)
		walk(t.R)
	}
	for _, a := range annTypes(p) {
		walk(a.T)
	}
	termSites(p, func(_ string, t *ref.Tm) {
		if t.K == ref.TSel && t.Label == old {
			t.Label = nw
		}
		if printsToo && t.K == ref.TPrint && t.Label == old {
			t.Label = nw
		}
		for i := range t.Branches {
			if t.Branches[i].Label == old {
				t.Branches[i].Label = nw
			}
		}
	})
}

func renameFunc(p *ref.Program, old, nw string) {
	for i := range p.Funcs {
		if p.Funcs[i].Name == old {
			p.Funcs[i].Name = nw
		}
	}
	for i := range p.Procs {
		if p.Procs[i].Exec == old {
			p.Procs[i].Exec = nw
		}
	}
	termSites(p, func(_ string, t *ref.Tm) {
		if t.K == ref.TCall && t.Fn == old {
			t.Fn = nw
		}
	})
	for i := range p.Procs {
		if p.Procs[i].Exec != "" && p.Procs[i].Body.Fn == old {
			p.Procs[i].Body.Fn = nw
		}
	}
}

// Renamings enumerates admissible renamings and declaration permutations of p.
// RenamingsOf restricts the channel-name renamings to the function named onlyFunc and skips the
// type/function/label renamings (used for generated programs, whose harness declarations are shared).
func RenamingsOf(p *ref.Program, maxPerms int, onlyFunc string) []Renaming {
	all := Renamings(p, maxPerms)
	if onlyFunc == "" {
		return all
	}
	idx := -1
	for i, f := range p.Funcs {
		if f.Name == onlyFunc {
			idx = i
		}
	}
	var out []Renaming
	for _, r := range all {
		switch {
		case strings.HasPrefix(r.Desc, "binder "):
			if strings.HasSuffix(r.Desc, fmt.Sprintf("in declaration %d", idx)) {
				out = append(out, r)
			}
		case strings.HasPrefix(r.Desc, "parameter "):
			if strings.HasSuffix(r.Desc, " of "+onlyFunc) {
				out = append(out, r)
			}
		case strings.HasPrefix(r.Desc, "declaration order"):
			out = append(out, r)
		}
	}
	return out
}

// FreshBinderRenamings renames each binding occurrence of p (one at a time, with the uses in its
// scope) to a fresh identifier: the alpha-renamings that repair a name collision. Used on programs
// that were made to collide on purpose (binder mutants), where verdicts must still be invariant.
func FreshBinderRenamings(p *ref.Program) []Renaming {
	var out []Renaming
	nb := len(bodies(p))
	for bi := 0; bi < nb; bi++ {
		var sites []binderSite
		binders(*bodies(p)[bi], &sites)
		for si := range sites {
			q := p.Copy()
			var qs []binderSite
			binders(*bodies(q)[bi], &qs)
			old := qs[si].name()
			if old == "self" || old == "fresh'" {
				continue
			}
			qs[si].rename("fresh'")
			out = append(out, Renaming{Desc: fmt.Sprintf("binder %s -> fresh' in body %d (site %d)", old, bi, si), P: q})
		}
	}
	return out
}

func Renamings(p *ref.Program, maxPerms int) []Renaming {
	var out []Renaming
	// identifier pool: every channel identifier of the program (collision seeking) plus a fresh one
	pool := map[string]bool{"fresh'": true, "r_1": true}
	for _, b := range bodies(p) {
		allNames(*b, pool)
	}
	for _, f := range p.Funcs {
		for _, q := range f.Params {
			pool[q.Name] = true
		}
		if f.Provider != "" {
			pool[f.Provider] = true
		}
	}
	delete(pool, "self")
	var ids []string
	for k := range pool {
		if !reserved[k] {
			ids = append(ids, k)
		}
	}
	sort.Strings(ids)
	topLevel := map[string]bool{}
	for _, q := range p.Procs {
		for _, n := range q.Names {
			topLevel[n] = true
		}
	}
	for _, a := range p.Assumed {
		topLevel[a.Name] = true
	}
	// (a) bound channel names inside one declaration: new name must not occur anywhere in that declaration
	nb := len(bodies(p))
	for bi := 0; bi < nb; bi++ {
		declNames := map[string]bool{}
		allNames(*bodies(p)[bi], declNames)
		isFunc := bi < len(p.Funcs)
		if isFunc {
			for _, q := range p.Funcs[bi].Params {
				declNames[q.Name] = true
			}
			if p.Funcs[bi].Provider != "" {
				declNames[p.Funcs[bi].Provider] = true
			}
		}
		// a local binder of a process may shadow the name of any top-level process that the body does
		// not mention (no capture) - including the process's own provider names: inside the body the
		// provider is `self`, its declared names are only aliases that a binder may hide
		var sites []binderSite
		binders(*bodies(p)[bi], &sites)
		for si := range sites {
			for _, nw := range ids {
				if declNames[nw] {
					continue
				}
				q := p.Copy()
				var qs []binderSite
				binders(*bodies(q)[bi], &qs)
				old := qs[si].name()
				qs[si].rename(nw)
				out = append(out, Renaming{Desc: fmt.Sprintf("binder %s -> %s in declaration %d", old, nw, bi), P: q})
			}
		}
		// parameters of a function
		if isFunc {
			for pi := range p.Funcs[bi].Params {
				for _, nw := range ids {
					if declNames[nw] {
						continue
					}
					q := p.Copy()
					old := q.Funcs[bi].Params[pi].Name
					q.Funcs[bi].Params[pi].Name = nw
					substFree(q.Funcs[bi].Body, old, nw)
					out = append(out, Renaming{Desc: fmt.Sprintf("parameter %s -> %s of %s", old, nw, q.Funcs[bi].Name), P: q})
				}
			}
		}
	}
	// (b) top-level process names (consistently in all processes)
	for n := range topLevel {
		for _, nw := range []string{"fresh'", "r_1"} {
			q := p.Copy()
			for i := range q.Procs {
				for j := range q.Procs[i].Names {
					if q.Procs[i].Names[j] == n {
						q.Procs[i].Names[j] = nw
					}
				}
				if q.Procs[i].Exec == "" {
					substFree(q.Procs[i].Body, n, nw)
				}
			}
			for i := range q.Assumed {
				if q.Assumed[i].Name == n {
					q.Assumed[i].Name = nw
				}
			}
			out = append(out, Renaming{Desc: "process name " + n + " -> " + nw, P: q})
		}
	}
	sort.SliceStable(out, func(i, j int) bool { return out[i].Desc < out[j].Desc })
	// (c) type names, function names, labels: fresh name and swap of two
	var tnames, fnames []string
	for _, d := range p.Env.Defs {
		tnames = append(tnames, d.Name)
	}
	for _, f := range p.Funcs {
		fnames = append(fnames, f.Name)
	}
	for i, n := range tnames {
		q := p.Copy()
		renameTypeName(q, n, "T_"+n+"'")
		out = append(out, Renaming{Desc: "type name " + n + " -> fresh", P: q})
		for _, m := range tnames[i+1:] {
			q := p.Copy()
			renameTypeName(q, n, "#tmp")
			renameTypeName(q, m, n)
			renameTypeName(q, "#tmp", m)
			out = append(out, Renaming{Desc: "swap type names " + n + " and " + m, P: q})
		}
		// a type name equal to a mode spelling or a label
		q = p.Copy()
		renameTypeName(q, n, "linr")
		out = append(out, Renaming{Desc: "type name " + n + " -> linr", P: q})
	}
	for i, n := range fnames {
		q := p.Copy()
		renameFunc(q, n, "f_"+n+"'")
		out = append(out, Renaming{Desc: "function name " + n + " -> fresh", P: q})
		for _, m := range fnames[i+1:] {
			q := p.Copy()
			renameFunc(q, n, "#tmp")
			renameFunc(q, m, n)
			renameFunc(q, "#tmp", m)
			out = append(out, Renaming{Desc: "swap function names " + n + " and " + m, P: q})
		}
	}
	_, labels := identPool(p)
	for i, l := range labels {
		if l == "zz" {
			continue
		}
		q := p.Copy()
		renameLabel(q, l, "L_"+l, false)
		out = append(out, Renaming{Desc: "label " + l + " -> fresh", P: q})
		for _, m := range labels[i+1:] {
			if m == "zz" {
				continue
			}
			q := p.Copy()
			renameLabel(q, l, "#tmp", false)
			renameLabel(q, m, l, false)
			renameLabel(q, "#tmp", m, false)
			out = append(out, Renaming{Desc: "swap labels " + l + " and " + m, P: q})
		}
	}
	// (d) permutations of the declarations
	n := len(p.Order)
	if n == 0 {
		q := p.Copy()
		q.String()
	}
	perms := declPerms(n, maxPerms)
	for _, pm := range perms {
		q := p.Copy()
		if len(q.Order) == 0 {
			continue
		}
		no := make([]ref.Decl2, n)
		for i, j := range pm {
			no[i] = q.Order[j]
		}
		q.Order = no
		out = append(out, Renaming{Desc: fmt.Sprintf("declaration order %v", pm), P: q})
	}
	return out
}

// declPerms: all permutations for n <= 5, otherwise adjacent transpositions, rotations and reversal.
func declPerms(n, max int) [][]int {
	id := make([]int, n)
	for i := range id {
		id[i] = i
	}
	var out [][]int
	if n <= 5 {
		var rec func(cur []int, used []bool)
		rec = func(cur []int, used []bool) {
			if len(cur) == n {
				same := true
				for i := range cur {
					if cur[i] != i {
						same = false
					}
				}
				if !same {
					out = append(out, append([]int{}, cur...))
				}
				return
			}
			for i := 0; i < n; i++ {
				if !used[i] {
					used[i] = true
					rec(append(cur, i), used)
					used[i] = false
				}
			}
		}
		rec(nil, make([]bool, n))
	} else {
		for i := 0; i+1 < n; i++ {
			p := append([]int{}, id...)
			p[i], p[i+1] = p[i+1], p[i]
			out = append(out, p)
		}
		for r := 1; r < n; r++ {
			p := make([]int, n)
			for i := range p {
				p[i] = (i + r) % n
			}
			out = append(out, p)
		}
		p := make([]int, n)
		for i := range p {
			p[i] = n - 1 - i
		}
		out = append(out, p)
	}
	if max > 0 && len(out) > max {
		out = out[:max]
	}
	return out
}
