// Package gen contains the bounded-exhaustive enumerators (types, environments, terms, texts).
package gen

import (
	"grits/zverif/ref"
)

type ShiftForm struct {
	Up       bool
	From, To ref.Mode
}

// RepresentativeShifts: legal and illegal shifts in both directions.
var RepresentativeShifts = []ShiftForm{
	{true, ref.MLin, ref.MLin}, {true, ref.MLin, ref.MAff}, {true, ref.MLin, ref.MRep}, {true, ref.MAff, ref.MLin},
	{false, ref.MLin, ref.MLin}, {false, ref.MAff, ref.MLin}, {false, ref.MRep, ref.MMul}, {false, ref.MLin, ref.MAff},
}

// AllShifts: all 16 mode pairs in both directions.
func AllShifts() []ShiftForm {
	var out []ShiftForm
	for _, up := range []bool{true, false} {
		for _, f := range ref.Modes4 {
			for _, t := range ref.Modes4 {
				out = append(out, ShiftForm{up, f, t})
			}
		}
	}
	return out
}

type TypeOpts struct {
	Names     []string
	Labels    []string // at most 2 are used
	Shifts    []ShiftForm
	DupLabels bool // also generate choices with a duplicated label
	NoBinary  bool
}

// Types enumerates all types of depth <= depth (deduplicated by text), simplest first.
func Types(depth int, o TypeOpts) []*ref.Ty {
	seen := map[string]bool{}
	var all []*ref.Ty
	add := func(t *ref.Ty) {
		k := t.String()
		if !seen[k] {
			seen[k] = true
			all = append(all, t)
		}
	}
	add(ref.Unit())
	for _, n := range o.Names {
		add(ref.Name(n))
	}
	for d := 1; d <= depth; d++ {
		prev := append([]*ref.Ty{}, all...)
		for _, a := range prev {
			for _, s := range o.Shifts {
				if s.Up {
					add(ref.Up(s.From, s.To, a.Copy()))
				} else {
					add(ref.Down(s.From, s.To, a.Copy()))
				}
			}
			if len(o.Labels) > 0 {
				add(ref.Plus(ref.Branch{Label: o.Labels[0], T: a.Copy()}))
				add(ref.With(ref.Branch{Label: o.Labels[0], T: a.Copy()}))
			}
		}
		for _, a := range prev {
			for _, b := range prev {
				if !o.NoBinary {
					add(ref.Tensor(a.Copy(), b.Copy()))
					add(ref.Lolli(a.Copy(), b.Copy()))
				}
				if len(o.Labels) > 1 {
					add(ref.Plus(ref.Branch{Label: o.Labels[0], T: a.Copy()}, ref.Branch{Label: o.Labels[1], T: b.Copy()}))
					add(ref.With(ref.Branch{Label: o.Labels[0], T: a.Copy()}, ref.Branch{Label: o.Labels[1], T: b.Copy()}))
					if o.DupLabels {
						add(ref.Plus(ref.Branch{Label: o.Labels[0], T: a.Copy()}, ref.Branch{Label: o.Labels[0], T: b.Copy()}))
						add(ref.With(ref.Branch{Label: o.Labels[0], T: a.Copy()}, ref.Branch{Label: o.Labels[0], T: b.Copy()}))
					}
				}
			}
		}
	}
	return all
}

// Annotations to put in front of a type: none, the four modes, and optionally an unknown one.
func Annotations(invalid bool) []ref.AnnTy {
	out := []ref.AnnTy{{}}
	for _, m := range ref.Modes4 {
		out = append(out, ref.AnnTy{Ann: m})
	}
	if invalid {
		out = append(out, ref.AnnTy{AnnStr: "bogus", Ann: ref.MInvalid})
	}
	return out
}

// Annotated returns pool x annotations. A bare name cannot carry an annotation in the concrete
// syntax ("lin A" would read "lin" as the annotation of A: that is what is meant), so all combine.
func Annotated(pool []*ref.Ty, anns []ref.AnnTy) []ref.AnnTy {
	var out []ref.AnnTy
	for _, t := range pool {
		for _, a := range anns {
			out = append(out, ref.AnnTy{Ann: a.Ann, AnnStr: a.AnnStr, T: t})
		}
	}
	return out
}

// EnvCount / EnvAt enumerate all environments with exactly n definitions named names[0..n-1]
// (optionally with a duplicated name) whose bodies range over bodies.
type EnvSpace struct {
	Names    []string
	Bodies   []ref.AnnTy
	BodiesAt [][]ref.AnnTy // optional: a separate body list per position (overrides Bodies)
	N        int
}

func (s EnvSpace) bodies(i int) []ref.AnnTy {
	if s.BodiesAt != nil {
		return s.BodiesAt[i]
	}
	return s.Bodies
}

func (s EnvSpace) Count() int {
	c := 1
	for i := 0; i < s.N; i++ {
		c *= len(s.bodies(i))
	}
	return c
}

func (s EnvSpace) At(idx int) *ref.Env {
	e := &ref.Env{}
	for i := 0; i < s.N; i++ {
		bs := s.bodies(i)
		b := bs[idx%len(bs)]
		idx /= len(bs)
		e.Defs = append(e.Defs, ref.TypeDef{Name: s.Names[i], Body: ref.AnnTy{Ann: b.Ann, AnnStr: b.AnnStr, T: b.T.Copy()}})
	}
	return e
}
