// Package vfuel is a deterministic step budget: the instrumenter inserts Tick() at the start
// of every function body and loop body; when the budget is exhausted the task panics with
// Exhausted, so non-termination and runaway recursion are reported independently of
// wall-clock time and machine load.
package vfuel

import "sync/atomic"

type Exhausted struct{ Limit int64 }

func (e Exhausted) Error() string { return "fuel exhausted" }

var used int64
var limit int64 = 1 << 62

func Tick() {
	if atomic.AddInt64(&used, 1) > atomic.LoadInt64(&limit) {
		panic(Exhausted{Limit: atomic.LoadInt64(&limit)})
	}
}

// Reset sets a new budget and clears the counter.
func Reset(l int64) {
	atomic.StoreInt64(&limit, l)
	atomic.StoreInt64(&used, 0)
}

// Disarm removes the limit (so that aborted tasks can unwind) but keeps counting.
func Disarm() { atomic.StoreInt64(&limit, 1<<62) }

func Used() int64 { return atomic.LoadInt64(&used) }

func IsExhausted(v interface{}) bool {
	_, ok := v.(Exhausted)
	return ok
}
