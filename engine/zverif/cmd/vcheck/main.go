// vcheck is the single entry point of all /verif checks (coordinator and worker mode).
package main

import (
	"flag"
	"fmt"
	"os"
	"strings"

	"encoding/json"

	"grits/zverif/checks"
	"grits/zverif/harness"
)

type multi []string

func (m *multi) String() string     { return strings.Join(*m, ",") }
func (m *multi) Set(s string) error { *m = append(*m, s); return nil }

func main() {
	c := &harness.Ctx{Extra: map[string]string{}}
	worker := flag.Bool("worker", false, "worker mode")
	shard := flag.Int("shard", 0, "")
	nshards := flag.Int("nshards", 1, "")
	from := flag.Int("from", 0, "")
	var xs multi
	flag.StringVar(&c.ID, "id", "", "property id")
	flag.StringVar(&c.Tier, "tier", "quick", "quick|thorough")
	flag.Int64Var(&c.Seed, "seed", 0, "seed")
	flag.StringVar(&c.VerifDir, "verif", "/verif", "")
	flag.StringVar(&c.RepoDir, "repo", "/repo", "")
	flag.StringVar(&c.Scratch, "scratch", "", "")
	flag.IntVar(&c.Workers, "workers", 0, "")
	flag.Var(&xs, "x", "extra key=value")
	replay := flag.String("replay", "", "replay file")
	solo := flag.String("solo", "", "C19: run one alphabet program alone in this fresh process: <index>,<mode>")
	flag.Parse()
	if *solo != "" {
		fmt.Println(checks.C19Solo(*solo))
		return
	}
	if *replay != "" {
		b, err := os.ReadFile(*replay)
		if err != nil {
			fmt.Fprintln(os.Stderr, err)
			os.Exit(2)
		}
		var rp map[string]interface{}
		if err := json.Unmarshal(b, &rp); err != nil {
			fmt.Fprintln(os.Stderr, err)
			os.Exit(2)
		}
		checks.Replay(rp)
		return
	}
	for _, x := range xs {
		if i := strings.Index(x, "="); i > 0 {
			c.Extra[x[:i]] = x[i+1:]
		}
	}
	ck := harness.Lookup(c.ID)
	if ck == nil {
		fmt.Fprintf(os.Stderr, "unknown check %q (have %v)\n", c.ID, harness.IDs())
		os.Exit(2)
	}
	if *worker {
		harness.Worker(c, ck, *shard, *nshards, *from, os.Stdout)
		return
	}
	os.Exit(harness.Coordinate(c, ck))
}
