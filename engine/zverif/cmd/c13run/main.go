// c13run executes one program file free-running (uninstrumented build, compiled with -race):
// parse, typecheck, run in the given mode with/without monitor, then the API calls a driver
// makes after completion. Used by check C13; exit code 66 = the race detector reported a race.
package main

import (
	"flag"
	"fmt"
	"os"
	"runtime"
	"sync"

	"grits/parser"
	"grits/process"
)

func main() {
	mode := flag.Int("mode", 0, "0 async, 1 sync, 2 non-polarized")
	monitor := flag.Bool("monitor", false, "attach a monitor")
	procs := flag.Int("procs", 0, "GOMAXPROCS")
	repeat := flag.Int("repeat", 1, "number of runs in this process")
	with := flag.String("with", "", "second program file: run both programs concurrently in this process")
	flag.Parse()
	if *procs > 0 {
		runtime.GOMAXPROCS(*procs)
	}
	text, err := os.ReadFile(flag.Arg(0))
	if err != nil {
		fmt.Println("READ-ERROR", err)
		os.Exit(3)
	}
	if *with != "" {
		// two drivers in one process, each parsing, typechecking and executing its own program at the
		// same time (what the web server does with two requests)
		text2, err := os.ReadFile(*with)
		if err != nil {
			fmt.Println("READ-ERROR", err)
			os.Exit(3)
		}
		var wg sync.WaitGroup
		bad := make([]bool, 2)
		for k, t := range []string{string(text), string(text2)} {
			wg.Add(1)
			go func(k int, t string) {
				defer wg.Done()
				for i := 0; i < *repeat; i++ {
					ps, assumed, env, err := parser.ParseString(t)
					if err != nil {
						bad[k] = true
						return
					}
					env.LogLevels = []process.LogLevel{}
					if err := process.Typecheck(ps, assumed, env); err != nil {
						bad[k] = true
						return
					}
					ev := []process.Execution_Version{process.NORMAL_ASYNC, process.NORMAL_SYNC, process.NON_POLARIZED_SYNC}[*mode]
					re := &process.RuntimeEnvironment{GlobalEnvironment: env, ExecutionVersion: ev, Typechecked: true, UseMonitor: *monitor, Color: false, Quiet: true}
					process.InitializeProcesses(ps, nil, nil, re)
					_ = re.ProcessCount()
					_ = re.DeadProcessCount()
					_ = re.TimeTaken()
					if *monitor {
						dead, log := re.StopMonitor()
						_ = len(dead) + len(log)
					}
				}
			}(k, t)
		}
		wg.Wait()
		if bad[0] || bad[1] {
			fmt.Println("NOT-ACCEPTED concurrent", bad)
			return
		}
		fmt.Println("DONE")
		return
	}
	for i := 0; i < *repeat; i++ {
		ps, assumed, env, err := parser.ParseString(string(text))
		if err != nil {
			fmt.Println("NOT-ACCEPTED parse")
			return
		}
		env.LogLevels = []process.LogLevel{}
		if err := process.Typecheck(ps, assumed, env); err != nil {
			fmt.Println("NOT-ACCEPTED type")
			return
		}
		ev := []process.Execution_Version{process.NORMAL_ASYNC, process.NORMAL_SYNC, process.NON_POLARIZED_SYNC}[*mode]
		re := &process.RuntimeEnvironment{GlobalEnvironment: env, ExecutionVersion: ev, Typechecked: true, UseMonitor: *monitor, Color: false, Quiet: true}
		process.InitializeProcesses(ps, nil, nil, re)
		_ = re.ProcessCount()
		_ = re.DeadProcessCount()
		_ = re.TimeTaken()
		if *monitor {
			dead, log := re.StopMonitor()
			_ = len(dead) + len(log)
		}
	}
	fmt.Println("DONE")
}
