// Package vtime replaces package time in the instrumented build: a virtual clock that only
// advances when no task can run (see vsched.Run).
package vtime

import (
	"time"

	"grits/zverif/vsched"
)

type Duration = time.Duration
type Time = time.Time
type Month = time.Month
type Weekday = time.Weekday
type Location = time.Location

const (
	Nanosecond  = time.Nanosecond
	Microsecond = time.Microsecond
	Millisecond = time.Millisecond
	Second      = time.Second
	Minute      = time.Minute
	Hour        = time.Hour
	RFC3339     = time.RFC3339
)

var (
	Unix          = time.Unix
	Date          = time.Date
	ParseDuration = time.ParseDuration
	UTC           = time.UTC
)

var epoch = time.Unix(1700000000, 0)

func Now() Time {
	if !vsched.Active() {
		return time.Now()
	}
	return epoch.Add(time.Duration(vsched.NowNS()))
}
func Since(t Time) Duration { return Now().Sub(t) }
func Until(t Time) Duration { return t.Sub(Now()) }
func Sleep(d Duration) {
	if !vsched.Active() {
		time.Sleep(d)
		return
	}
	vsched.SleepNS(int64(d))
}

type Timer struct {
	C    chan Time
	st   func() bool
	real *time.Timer
}

func NewTimer(d Duration) *Timer {
	t := &Timer{C: make(chan Time, 1)}
	t.arm(d, nil)
	return t
}

func (t *Timer) arm(d Duration, f func()) {
	if !vsched.Active() {
		t.real = time.AfterFunc(d, func() {
			if f != nil {
				f()
				return
			}
			select {
			case t.C <- time.Now():
			default:
			}
		})
		t.st = t.real.Stop
		return
	}
	h := vsched.AddTimer(int64(d), func() {
		if f != nil {
			vsched.Go("timerfunc", f)
			return
		}
		select {
		case t.C <- Now():
		default:
		}
	})
	t.st = func() bool { return vsched.StopTimer(h) }
}
func (t *Timer) Stop() bool { return t.st() }
func (t *Timer) Reset(d Duration) bool {
	was := t.st()
	t.arm(d, nil)
	return was
}

func After(d Duration) chan Time { return NewTimer(d).C }
func AfterFunc(d Duration, f func()) *Timer {
	t := &Timer{}
	t.arm(d, f)
	return t
}
