// Package vsync replaces package sync in the instrumented build with scheduler-aware versions.
package vsync

import (
	"sync"

	"grits/zverif/vsched"
)

type WaitGroup struct {
	n    int
	real sync.WaitGroup
}

func (w *WaitGroup) Add(d int) {
	if vsched.Active() {
		w.n += d
		return
	}
	w.real.Add(d)
}
func (w *WaitGroup) Done() { w.Add(-1) }
func (w *WaitGroup) Wait() {
	if vsched.Active() {
		vsched.WaitUntil(func() bool { return w.n <= 0 }, "waitgroup")
		return
	}
	w.real.Wait()
}

type Mutex struct {
	locked bool
	real   sync.Mutex
}

func (m *Mutex) Lock() {
	if vsched.Active() {
		vsched.WaitUntil(func() bool { return !m.locked }, "mutex")
		m.locked = true
		return
	}
	m.real.Lock()
}
func (m *Mutex) TryLock() bool {
	if vsched.Active() {
		if m.locked {
			return false
		}
		m.locked = true
		return true
	}
	return m.real.TryLock()
}
func (m *Mutex) Unlock() {
	if vsched.Active() {
		m.locked = false
		return
	}
	m.real.Unlock()
}

type RWMutex struct {
	w    bool
	r    int
	real sync.RWMutex
}

func (m *RWMutex) Lock() {
	if vsched.Active() {
		vsched.WaitUntil(func() bool { return !m.w && m.r == 0 }, "rwmutex")
		m.w = true
		return
	}
	m.real.Lock()
}
func (m *RWMutex) Unlock() {
	if vsched.Active() {
		m.w = false
		return
	}
	m.real.Unlock()
}
func (m *RWMutex) RLock() {
	if vsched.Active() {
		vsched.WaitUntil(func() bool { return !m.w }, "rwmutex-r")
		m.r++
		return
	}
	m.real.RLock()
}
func (m *RWMutex) RUnlock() {
	if vsched.Active() {
		m.r--
		return
	}
	m.real.RUnlock()
}

type Once = sync.Once
type Map = sync.Map
type Pool = sync.Pool
type Locker = sync.Locker
