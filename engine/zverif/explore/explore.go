// Package explore runs Grits programs on the real (instrumented) interpreter under the
// controlled scheduler and enumerates schedules: S-full (all), S-delay(d) (delay bounding).
package explore

import (
	"fmt"
	"reflect"
	"time"
	"regexp"
	"sort"
	"strings"

	"grits/parser"
	"grits/process"
	"grits/types"
	"grits/zverif/vfuel"
	"grits/zverif/vsched"
)

type Config struct {
	Mode    int // 0 async polarized, 1 sync polarized, 2 sync non-polarized
	Monitor bool
	DelayMS int // RuntimeEnvironment.Delay in (virtual) milliseconds
}

func (c Config) String() string {
	m := []string{"async", "sync", "np"}[c.Mode]
	if c.Monitor {
		m += "+monitor"
	}
	if c.DelayMS > 0 {
		m += fmt.Sprintf("+delay%dms", c.DelayMS)
	}
	return m
}

var AllConfigs = []Config{{Mode: 0}, {Mode: 1}, {Mode: 2}, {Mode: 0, Monitor: true}, {Mode: 1, Monitor: true}, {Mode: 2, Monitor: true}}

// Exec is the digest of one execution.
type Exec struct {
	Res        *vsched.Result
	ParseErr   string
	TypeErr    string
	Returned   bool // InitializeProcesses returned
	RootChans  map[uintptr]string
	RootInfo   []RootInfo
	Prints     []string // labels in emission order
	Fuel       int64
	MonitorLog int
}

type RootInfo struct {
	Names      []string
	UnitType   bool
	Positive   bool
	Referenced bool   // some name of the process is mentioned by another process
	NameRef    []bool // per provider name: mentioned by another process
}

const FuelLimit = 3_000_000

// FuelOverride, if > 0, replaces FuelLimit (used for mutants, which may well diverge).
var FuelOverride int64

var ansi = regexp.MustCompile("\x1b\\[[0-9;]*m")

func CleanPanic(s string) string {
	s = ansi.ReplaceAllString(s, "")
	s = strings.ReplaceAll(s, "\n", " ")
	return strings.TrimSpace(s)
}

// RunOnce parses, typechecks (unless skipTC) and executes text under the scheduler following prefix.
func RunOnce(text string, cfg Config, prefix []int, opts vsched.Options, skipTC bool) *Exec {
	ex := &Exec{RootChans: map[uintptr]string{}}
	opts.FreezeAfterQuiesce = true
	if FuelOverride > 0 {
		vfuel.Reset(FuelOverride)
	} else {
		vfuel.Reset(FuelLimit)
	}
	ex.Res = vsched.Run(prefix, opts, func() {
		vsched.Branching(false)
		procs, assumed, env, err := parser.ParseString(text)
		if err != nil {
			ex.ParseErr = err.Error()
			return
		}
		env.LogLevels = []process.LogLevel{}
		if !skipTC {
			if err := process.Typecheck(procs, assumed, env); err != nil {
				ex.TypeErr = err.Error()
				return
			}
		}
		// classify roots before channels are substituted
		refd := map[string]bool{}
		for _, p := range procs {
			for _, fn := range p.Body.FreeNames() {
				refd[fn.Ident] = true
			}
		}
		for _, p := range procs {
			ri := RootInfo{}
			for _, n := range p.Providers {
				ri.Names = append(ri.Names, n.Ident)
				ri.NameRef = append(ri.NameRef, refd[n.Ident])
				if refd[n.Ident] {
					ri.Referenced = true
				}
			}
			if p.Type != nil {
				t := types.UnfoldIfNeeded(p.Type, env.Types)
				if t != nil {
					_, ri.UnitType = t.(*types.UnitType)
					if _, isLabel := t.(*types.LabelType); !isLabel {
						ri.Positive = t.Polarity() == types.POSITIVE
					}
				}
			}
			ex.RootInfo = append(ex.RootInfo, ri)
		}
		ev := process.NORMAL_ASYNC
		switch cfg.Mode {
		case 1:
			ev = process.NORMAL_SYNC
		case 2:
			ev = process.NON_POLARIZED_SYNC
		}
		re := &process.RuntimeEnvironment{GlobalEnvironment: env, ExecutionVersion: ev, Typechecked: !skipTC, UseMonitor: cfg.Monitor, Color: false, Delay: time.Duration(cfg.DelayMS) * time.Millisecond}
		vsched.Branching(true)
		process.InitializeProcesses(procs, nil, nil, re)
		ex.Returned = true
		for _, p := range procs {
			for _, n := range p.Providers {
				if n.Channel != nil {
					ex.RootChans[reflect.ValueOf(n.Channel).Pointer()] = n.Ident
				}
			}
		}
		_ = re.ProcessCount()
		_ = re.DeadProcessCount()
		_ = re.TimeTaken()
		if cfg.Monitor {
			_, log := re.StopMonitor()
			ex.MonitorLog = len(log)
		}
	})
	ex.Fuel = vfuel.Used()
	vfuel.Disarm()
	for _, e := range ex.Res.Events {
		for _, line := range strings.Split(e.Text, "\n") {
			if strings.HasPrefix(line, "> ") {
				ex.Prints = append(ex.Prints, strings.TrimPrefix(line, "> "))
			}
		}
	}
	return ex
}

func (ex *Exec) Accepted() bool { return ex.ParseErr == "" && ex.TypeErr == "" }

func (ex *Exec) PrintMultiset() string {
	p := append([]string{}, ex.Prints...)
	sort.Strings(p)
	return strings.Join(p, ",")
}

func isProcTask(name string) bool {
	return name == "transitionLoop" || name == "transitionLoopNP"
}

// LiveProcs lists the process tasks alive at quiescence: "send"/"recv"/"start"/... per task.
type LiveProc struct {
	Task     int
	Kind     string // "send", "recv", "other"
	OnRoot   string // root channel name if the (single) session channel is a root channel
	Desc     string
	ChanKeys []uintptr
}

func (ex *Exec) LiveAtQuiescence() []LiveProc {
	var out []LiveProc
	for _, b := range ex.Res.Quiesce {
		if !isProcTask(b.Name) {
			continue
		}
		lp := LiveProc{Task: b.Task, Kind: "other"}
		var sess []vsched.CaseInfo
		for _, c := range b.Cases {
			if !c.Env {
				sess = append(sess, c)
			}
		}
		switch {
		case b.Op == "send" && len(sess) == 1:
			lp.Kind = "send"
		case b.Op == "recv" && len(sess) == 1:
			lp.Kind = "recv"
		case b.Op == "select":
			allRecv, allSend := len(sess) > 0, len(sess) > 0
			for _, c := range sess {
				if c.Elem != "process.Message" {
					continue // control channel polls do not decide the direction
				}
				if c.Send {
					allRecv = false
				} else {
					allSend = false
				}
			}
			if allRecv {
				lp.Kind = "recv"
			} else if allSend {
				lp.Kind = "send"
			} else {
				lp.Kind = "mixed"
			}
		default:
			lp.Kind = b.Op
		}
		for _, c := range sess {
			lp.ChanKeys = append(lp.ChanKeys, c.Key)
			if c.Elem == "process.Message" {
				if n, ok := ex.RootChans[c.Key]; ok {
					lp.OnRoot = n
				}
			}
		}
		lp.Desc = fmt.Sprintf("task %d %s %s root=%q", b.Task, b.Name, lp.Kind, lp.OnRoot)
		out = append(out, lp)
	}
	return out
}

// Key summarises everything C01..C03 look at.
func (ex *Exec) OutcomeKey() string {
	var ps []string
	for _, p := range ex.Res.Panics {
		ps = append(ps, CleanPanic(p))
	}
	sort.Strings(ps)
	var live []string
	for _, l := range ex.LiveAtQuiescence() {
		live = append(live, l.Kind+"@"+l.OnRoot)
	}
	sort.Strings(live)
	return fmt.Sprintf("prints={%s} live=%v panics=%v returned=%v err=%q", ex.PrintMultiset(), live, ps, ex.Returned, ex.Res.Err)
}

// Stats accumulates exploration figures.
type Stats struct {
	Execs       int64
	Transitions int64
	States      map[uint64]struct{}
	MaxPoints   int
	Capped      bool
}

func NewStats() *Stats { return &Stats{States: map[uint64]struct{}{}} }

func (st *Stats) add(ex *Exec) {
	st.Execs++
	st.Transitions += int64(len(ex.Res.Steps))
	for _, p := range ex.Res.Points {
		st.States[p.FP] = struct{}{}
	}
	if len(ex.Res.Points) > st.MaxPoints {
		st.MaxPoints = len(ex.Res.Points)
	}
}

// Delay enumerates every execution whose total delay (sum of chosen indices) is <= d.
// visit is called for each execution; returning false stops the exploration.
// Deviations from the default choice are only taken at points with index < horizon (0 = no limit).
func Delay(run func(prefix []int) *Exec, d int, horizon int, maxExecs int64, st *Stats, visit func(*Exec) bool) {
	var rec func(prefix []int, used int) bool
	rec = func(prefix []int, used int) bool {
		if maxExecs > 0 && st.Execs >= maxExecs {
			st.Capped = true
			return false
		}
		ex := run(prefix)
		st.add(ex)
		if !visit(ex) {
			return false
		}
		if strings.HasPrefix(ex.Res.Err, "replay divergence") {
			return true
		}
		pts := ex.Res.Points
		cost := used
		for i := len(prefix); i < len(pts) && (horizon <= 0 || i < horizon); i++ {
			// chosen index at i is 0 beyond the prefix
			for alt := 1; alt < len(pts[i].Enabled); alt++ {
				if d >= 0 && cost+alt > d {
					break
				}
				np := append(append([]int{}, ex.Res.Choices[:i]...), alt)
				if !rec(np, cost+alt) {
					return false
				}
			}
		}
		return true
	}
	rec(nil, 0)
}
