package explore

// S-dpor: stateless exploration with dynamic partial-order reduction (Flanagan-Godefroid backtrack
// sets driven by vector clocks). Every execution it reports is a real run of the real code; an
// error in the dependence relation could only lose schedules, which is why its result is always
// compared with the delay-bounded exploration (the caller requires outcomes(dpor) >= outcomes(delay)).
//
// Dependence between two executed blocks of different tasks:
//   - DATA accesses to the same channel are dependent, except the causal pair "receive of what
//     the other block sent" (and the send into the slot a receive freed): clocks are joined, no
//     backtrack point is added;
//   - a block that ended parked on an unbuffered channel c (POST) and a block that polled c with a
//     select/default (POLL) are dependent;
//   - close and rendezvous count as DATA accesses of kind 3 (dependent with every other access).

import "grits/zverif/vsched"

type vclock map[int]int

func (a vclock) join(b vclock) vclock {
	c := vclock{}
	for k, v := range a {
		c[k] = v
	}
	for k, v := range b {
		if v > c[k] {
			c[k] = v
		}
	}
	return c
}

type dporFrame struct {
	enabled   []int // task of each enabled choice
	partner   []int
	n         int
	done      map[int]bool
	backtrack map[int]bool
}

// DPOR explores until no backtrack point is left or maxExecs is reached.
func DPOR(run func(prefix []int) *Exec, maxExecs int64, st *Stats, visit func(*Exec) bool) {
	var frames []*dporFrame
	prefix := []int{}
	for {
		if maxExecs > 0 && st.Execs >= maxExecs {
			st.Capped = true
			return
		}
		ex := run(prefix)
		st.add(ex)
		if !visit(ex) {
			return
		}
		pts := ex.Res.Points
		if len(frames) > len(prefix) {
			frames = frames[:len(prefix)]
		}
		for i := len(frames); i < len(pts); i++ {
			f := &dporFrame{n: len(pts[i].Enabled), done: map[int]bool{}, backtrack: map[int]bool{}}
			for _, c := range pts[i].Enabled {
				f.enabled = append(f.enabled, c.Task)
				p := -1
				if c.Partner >= 0 {
					p = c.Partner / 1000
				}
				f.partner = append(f.partner, p)
			}
			frames = append(frames, f)
		}
		for i, p := range pts {
			if i < len(frames) {
				frames[i].done[p.Chosen] = true
			}
		}
		// race detection over the executed blocks
		steps := ex.Res.Steps
		C := map[int]vclock{}
		stepVC := make([]vclock, len(steps))
		type acc struct {
			step int
			kind int // 1 send 2 recv 3 other
		}
		lastData := map[uintptr][]acc{}
		lastPost := map[uintptr][]int{}
		lastPoll := map[uintptr][]int{}
		addBacktrack := func(earlier int, later int) {
			se, sl := steps[earlier], steps[later]
			if se.Point < 0 || se.Point >= len(frames) {
				return
			}
			f := frames[se.Point]
			added := false
			for ci, t := range f.enabled {
				if t == sl.Task || (sl.Partner >= 0 && t == sl.Partner) || (f.partner[ci] >= 0 && (f.partner[ci] == sl.Task || f.partner[ci] == sl.Partner)) {
					if !f.done[ci] {
						f.backtrack[ci] = true
					}
					added = true
				}
			}
			if !added {
				for ci := range f.enabled {
					if !f.done[ci] {
						f.backtrack[ci] = true
					}
				}
			}
		}
		sameTask := func(a, b *vsched.Step) bool {
			return a.Task == b.Task || (b.Partner >= 0 && a.Task == b.Partner) || (a.Partner >= 0 && (a.Partner == b.Task || a.Partner == b.Partner))
		}
		for k, s := range steps {
			cp := C[s.Task]
			if cp == nil {
				cp = vclock{}
			}
			if s.Partner >= 0 {
				cp = cp.join(C[s.Partner])
			}
			nv := cp.join(nil)
			race := func(i int, causal bool) {
				si := steps[i]
				if sameTask(si, s) {
					return
				}
				if !causal && cp[si.Task] < i+1 && (si.Partner < 0 || cp[si.Partner] < i+1) {
					addBacktrack(i, k)
				}
				nv = nv.join(stepVC[i])
			}
			for ch, kind := range s.Data {
				for _, a := range lastData[ch] {
					causal := (a.kind == 1 && kind == 2) || (a.kind == 2 && kind == 1)
					race(a.step, causal)
				}
			}
			for ch := range s.Poll {
				for _, i := range lastPost[ch] {
					race(i, false)
				}
				for _, a := range lastData[ch] {
					race(a.step, false)
				}
			}
			for ch := range s.Post {
				for _, i := range lastPoll[ch] {
					race(i, false)
				}
			}
			nv[s.Task] = k + 1
			if s.Partner >= 0 {
				nv[s.Partner] = k + 1
			}
			stepVC[k] = nv
			C[s.Task] = nv
			if s.Partner >= 0 {
				C[s.Partner] = nv
			}
			for ch, kind := range s.Data {
				lastData[ch] = append(lastData[ch], acc{k, kind})
				if len(lastData[ch]) > 6 {
					lastData[ch] = lastData[ch][len(lastData[ch])-6:]
				}
			}
			for ch := range s.Post {
				lastPost[ch] = append(lastPost[ch], k)
			}
			for ch := range s.Poll {
				lastPoll[ch] = append(lastPoll[ch], k)
			}
			for _, child := range s.Spawned {
				C[child] = nv
			}
		}
		// deepest frame with a pending backtrack choice
		found := false
		for i := len(frames) - 1; i >= 0 && !found; i-- {
			if i >= len(pts) {
				continue
			}
			for ci := 0; ci < frames[i].n; ci++ {
				if frames[i].backtrack[ci] && !frames[i].done[ci] {
					prefix = append(append([]int{}, ex.Res.Choices[:i]...), ci)
					frames = frames[:i+1]
					frames[i].done[ci] = true
					found = true
					break
				}
			}
		}
		if !found {
			return
		}
	}
}
