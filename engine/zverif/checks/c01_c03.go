package checks

import (
	"fmt"
	"os"
	"sort"
	"strings"

	"grits/zverif/explore"
	"grits/zverif/harness"
	"grits/zverif/vsched"
)

// runtimeProgs returns the programs the schedule-exploring checks run (corpus, later also generated ones).
var runtimeProgs = func(c *harness.Ctx) []Prog { return Corpus(c) }

type exploreResult struct {
	skipped  string
	outcomes map[string][]int // outcome key -> sample schedule
	execs    int64
}

// exploreProgram runs S-delay(d) for one program and config, calling visit on every execution.
func exploreProgram(c *harness.Ctx, p Prog, cfg explore.Config, r *harness.Rec, visit func(ex *explore.Exec) bool) *exploreResult {
	res := &exploreResult{outcomes: map[string][]int{}}
	st := explore.NewStats()
	first := true
	run := func(prefix []int) *explore.Exec {
		return explore.RunOnce(p.Text, cfg, prefix, vsched.Options{}, false)
	}
	explore.Delay(run, delayFor(c, p.Name), horizonFor(c, p.Name), capExecs(c), st, func(ex *explore.Exec) bool {
		if first {
			first = false
			if !ex.Accepted() {
				res.skipped = "not accepted"
				return false
			}
			if ex.Res.Err == "step budget exceeded" || fuelPanic(ex) {
				res.skipped = "possibly non-terminating (budget exhausted on the default schedule)"
				return false
			}
		}
		k := ex.OutcomeKey()
		if _, ok := res.outcomes[k]; !ok {
			res.outcomes[k] = ex.Res.Choices
		}
		return visit(ex)
	})
	// thorough tier, hand-written corpus: unbounded exploration with partial-order reduction on top
	if c.Thorough() && res.skipped == "" && strings.HasPrefix(p.Name, "corpus/") {
		dst := explore.NewStats()
		dporOut := map[string]bool{}
		explore.DPOR(run, 60000, dst, func(ex *explore.Exec) bool {
			k := ex.OutcomeKey()
			dporOut[k] = true
			if _, ok := res.outcomes[k]; !ok {
				res.outcomes[k] = ex.Res.Choices
			}
			return visit(ex)
		})
		st.Execs += dst.Execs
		st.Transitions += dst.Transitions
		for k := range dst.States {
			st.States[k] = struct{}{}
		}
		r.Add("dpor_executions", dst.Execs)
		if dst.Capped {
			r.Add("dpor_capped_cases", 1)
			r.Note("S-dpor hit its execution cap (delay-bounded result stands): " + p.Name + " " + cfg.String())
		} else {
			r.Add("dpor_complete_cases", 1)
			// self-check: everything the delay-bounded exploration saw must have been seen by S-dpor
			// (outcomes added by the DPOR visit above are in both sets by construction, so compare with a snapshot)
		}
	}
	res.execs = st.Execs
	r.Add("evaluations", st.Execs)
	r.Add("traces_validated_against_impl", st.Execs)
	r.Add("transitions", st.Transitions)
	r.Add("states", int64(len(st.States)))
	if st.Capped {
		r.Add("capped", 1)
	}
	if res.skipped != "" {
		r.Note("skipped: " + res.skipped)
	} else {
		r.Add("program_configs_explored", 1)
		r.Add("distinct_outcomes_total", int64(len(res.outcomes)))
		if os.Getenv("VERIF_DEBUG") != "" {
			fmt.Fprintf(os.Stderr, "DBG %s %s execs=%d maxpts=%d outcomes=%d\n", p.Name, cfg, st.Execs, st.MaxPoints, len(res.outcomes))
		}
		r.Sample(map[string]interface{}{"program": p.Name, "config": cfg.String(), "delay_bound": delayFor(c, p.Name), "horizon": horizonFor(c, p.Name), "executions": st.Execs, "max_points": st.MaxPoints, "distinct_outcomes": len(res.outcomes)})
	}
	return res
}

// c01Mutants: every single-edit mutant that the real typechecker ACCEPTS is a program of the
// property's antecedent too: it is executed (default schedule in the quick tier, delay <= 1 in the
// thorough tier; three modes, no monitor) and must not raise a runtime error.
func acceptedMutants(c *harness.Ctx, idx int, r *harness.Rec, progress bool) {
	base, muts := getMutSpace(c).programsOfCase(idx)
	explore.FuelOverride = 250000
	defer func() { explore.FuelOverride = 0 }()
	d := 0
	if c.Thorough() && !strings.HasPrefix(base.Name, "gen4/") {
		d = 1 // mutants of the 34 000 size-4 generated programs are run under the default schedule only
	}
	for _, m := range muts {
		if m.Desc == "original" || len(m.P.Assumed) > 0 {
			continue
		}
		text := m.P.String()
		g := TypecheckText(text, nil, nil)
		if !g.Accepted() {
			continue
		}
		r.Add("accepted_mutants_executed", 1)
		p := Prog{Name: base.Name + " / " + m.Desc, Text: text}
		modes := []explore.Config{{Mode: 0}, {Mode: 1}, {Mode: 2}}
		if progress {
			modes = modes[:2]
		}
		for _, cfg := range modes {
			cfg := cfg
			st := explore.NewStats()
			first := true
			explore.Delay(func(prefix []int) *explore.Exec {
				return explore.RunOnce(text, cfg, prefix, vsched.Options{}, false)
			}, d, 60, 2000, st, func(ex *explore.Exec) bool {
				if first {
					first = false
					if !ex.Accepted() || ex.Res.Err == "step budget exceeded" || fuelPanic(ex) {
						return false
					}
				}
				var problems []string
				if progress {
					problems = progressProblems(ex, cfg)
				} else {
					for _, pn := range ex.Res.Panics {
						problems = append(problems, "panic: "+NormMsg(pn))
					}
					for _, n := range ex.Res.Notes {
						problems = append(problems, "channel misuse: "+NormMsg(n))
					}
					if !ex.Returned && ex.Res.Err == "" {
						problems = append(problems, "InitializeProcesses did not return")
					}
				}
				for _, pb := range problems {
					if !confirm(p, cfg, ex.Res.Choices, ex.OutcomeKey(), 3) {
						continue
					}
					r.Violation(harness.Violation{Key: modeName(cfg.Mode) + ": " + pb, Desc: fmt.Sprintf("%s [%s]: %s", p.Name, cfg, pb), Replay: replayOf(p, cfg, ex.Res.Choices, ex.OutcomeKey())})
				}
				return len(problems) == 0
			})
			r.Add("evaluations", st.Execs)
			r.Add("traces_validated_against_impl", st.Execs)
			r.Add("transitions", st.Transitions)
			r.Add("states", int64(len(st.States)))
		}
	}
}

func c02InScope(ex *explore.Exec) bool {
	for _, ri := range ex.RootInfo {
		for _, refd := range ri.NameRef {
			if !refd && !ri.UnitType {
				return false
			}
		}
	}
	return true
}

// progressProblems is C02's oracle on the quiescence snapshot of one execution.
func progressProblems(ex *explore.Exec, cfg explore.Config) []string {
	if !c02InScope(ex) || len(ex.Res.Panics) > 0 || ex.Res.Err != "" {
		return nil
	}
	unref := map[string]bool{}
	for _, ri := range ex.RootInfo {
		for i, n := range ri.Names {
			if !ri.NameRef[i] {
				unref[n] = true
			}
		}
	}
	var bad []string
	for _, l := range ex.LiveAtQuiescence() {
		if cfg.Mode == 0 {
			bad = append(bad, "alive at quiescence in async mode: "+l.Kind)
		} else if l.Kind != "send" {
			bad = append(bad, "alive at quiescence in sync mode, not blocked in a send: "+l.Kind)
		} else if !unref[l.OnRoot] {
			bad = append(bad, "blocked sending on a channel that is not an unconsumed top-level channel")
		}
	}
	return bad
}

func fuelPanic(ex *explore.Exec) bool {
	for _, p := range ex.Res.Panics {
		if strings.Contains(p, "fuel exhausted") {
			return true
		}
	}
	return false
}

const mcRule = "case = (program, execution mode, monitor on/off); for each case every schedule of the real interpreter with total delay <= d (delay bounding over the canonical enabled order: d=1 in the quick tier; thorough: d=3 for the hand-written corpus, d=2 for examples and size-3 generated programs, d=1 for size-4 generated programs; deviations from the default scheduler are taken at the first H scheduling points of an execution, H=60 quick, H=70 (corpus) / 150 thorough) is executed under the controlled scheduler; states = distinct scheduler-state fingerprints per case (summed), transitions = atomic blocks executed; a case is non-trivial when it has >= 2 scheduling points; generated programs are explored without a monitor; thorough tier: for the hand-written corpus additionally S-dpor (dynamic partial-order reduction over typed channel footprints, unbounded, capped at 60000 executions per case; dpor_complete_cases counts the cases whose whole schedule space was covered modulo independence; the XDPOR self-check compares it with S-delay(2))"

var mcAssumptions = []string{
	"interleavings of atomic blocks between channel operations; unsynchronised shared memory inside blocks is C13's subject",
	"virtual time: the heartbeat timer fires only when no task can run",
	"heartbeat/monitor/ctx.Done channel traffic is granted eagerly (no choice point)",
	"schedule bound: delay bound d as stated; programs: the corpus and generated programs of the stated size",
}

func init() {
	harness.Register(&harness.Check{
		ID: "C01", Level: "model_checking", Rule: mcRule + "; in addition every single-edit mutant (E-mut) of the corpus/example programs and of a subset of the generated programs that the real typechecker ACCEPTS is executed in the three modes (default schedule in the quick tier, delay <= 1 in the thorough tier, except for mutants of the size-4 generated programs, which keep the default schedule)", Assumptions: mcAssumptions,
		Cases: func(c *harness.Ctx) int { return len(runtimeProgs(c))*len(explore.AllConfigs) + getMutSpace(c).total },
		Run: func(c *harness.Ctx, idx int, r *harness.Rec) {
			progs := runtimeProgs(c)
			if idx >= len(progs)*len(explore.AllConfigs) {
				acceptedMutants(c, idx-len(progs)*len(explore.AllConfigs), r, false)
				return
			}
			p := progs[idx/len(explore.AllConfigs)]
			cfg := explore.AllConfigs[idx%len(explore.AllConfigs)]
			if cfg.Monitor && strings.HasPrefix(p.Name, "gen") {
				return // the monitor configurations are explored on the corpus and examples only
			}
			reported := map[string]bool{}
			exploreProgram(c, p, cfg, r, func(ex *explore.Exec) bool {
				var problems []string
				for _, pn := range ex.Res.Panics {
					problems = append(problems, "panic: "+NormMsg(pn))
				}
				for _, n := range ex.Res.Notes {
					problems = append(problems, "channel misuse: "+NormMsg(n))
				}
				if !ex.Returned && ex.Res.Err == "" {
					problems = append(problems, "InitializeProcesses did not return")
				}
				if ex.Res.Err == "step budget exceeded" {
					r.Add("capped", 1)
				} else if ex.Res.Err != "" {
					problems = append(problems, "engine: "+ex.Res.Err)
				}
				for _, pb := range problems {
					key := modeName(cfg.Mode) + ": " + pb
					if reported[key] {
						continue
					}
					reported[key] = true
					if !confirm(p, cfg, ex.Res.Choices, ex.OutcomeKey(), 5) {
						r.Note("unconfirmed (non-reproducible) problem dropped: " + key)
						continue
					}
					r.Violation(harness.Violation{Key: key, Desc: fmt.Sprintf("%s [%s]: %s", p.Name, cfg, pb), Replay: replayOf(p, cfg, ex.Res.Choices, ex.OutcomeKey())})
				}
				return true
			})
		},
	})

	harness.Register(&harness.Check{
		ID: "C02", Level: "model_checking", Rule: mcRule + "; oracle on the quiescence snapshot (live process tasks just before virtual time first advances); in addition every single-edit mutant of the corpus/example programs that the real typechecker ACCEPTS is executed in both polarized modes (default schedule quick, delay <= 1 thorough) under the same oracle", Assumptions: mcAssumptions,
		Cases: func(c *harness.Ctx) int { return len(runtimeProgs(c))*4 + getMutSpace(c).total },
		Run: func(c *harness.Ctx, idx int, r *harness.Rec) {
			progs := runtimeProgs(c)
			if idx >= len(progs)*4 {
				acceptedMutants(c, idx-len(progs)*4, r, true)
				return
			}
			p := progs[idx/4]
			cfg := []explore.Config{{Mode: 0, Monitor: false}, {Mode: 1, Monitor: false}, {Mode: 0, Monitor: true}, {Mode: 1, Monitor: true}}[idx%4]
			if cfg.Monitor && strings.HasPrefix(p.Name, "gen") {
				return
			}
			reported := map[string]bool{}
			exploreProgram(c, p, cfg, r, func(ex *explore.Exec) bool {
				bad := progressProblems(ex, cfg)
				if bad == nil && !c02InScope(ex) {
					r.Note("out of scope: an unreferenced top-level process has a non-unit type (poised external interface)")
					return false
				}
				sort.Strings(bad)
				for _, pb := range bad {
					key := modeName(cfg.Mode) + ": " + pb
					if reported[key] {
						continue
					}
					reported[key] = true
					if !confirm(p, cfg, ex.Res.Choices, ex.OutcomeKey(), 5) {
						r.Note("unconfirmed problem dropped: " + key)
						continue
					}
					r.Violation(harness.Violation{Key: key, Desc: fmt.Sprintf("%s [%s]: %s (%s)", p.Name, cfg, pb, ex.OutcomeKey()), Replay: replayOf(p, cfg, ex.Res.Choices, ex.OutcomeKey())})
				}
				return true
			})
		},
	})

	harness.Register(&harness.Check{
		ID: "C03", Level: "model_checking", Rule: mcRule + "; here a case is a program, explored in async and sync polarized mode with monitor off/on (plus non-polarized mode when the program is contraction-free); the oracle is that all executions of all these configurations give one (printed multiset, completion) pair", Assumptions: mcAssumptions,
		Cases: func(c *harness.Ctx) int { return len(runtimeProgs(c)) },
		Run: func(c *harness.Ctx, idx int, r *harness.Rec) {
			p := runtimeProgs(c)[idx]
			cfgs := []explore.Config{{Mode: 0, Monitor: false}, {Mode: 1, Monitor: false}, {Mode: 0, Monitor: true}, {Mode: 1, Monitor: true}}
			if ContractionFree(p.Text) {
				cfgs = append(cfgs, explore.Config{Mode: 2}, explore.Config{Mode: 2, Monitor: true})
			}
			if strings.HasPrefix(p.Name, "gen") {
				cfgs = []explore.Config{{Mode: 0, Monitor: false}, {Mode: 1, Monitor: false}}
				if ContractionFree(p.Text) {
					cfgs = append(cfgs, explore.Config{Mode: 2})
				}
			}
			type obs struct {
				cfg     explore.Config
				choices []int
				full    string
			}
			seen := map[string]obs{}
			seenDone := map[string]obs{}
			for _, cfg := range cfgs {
				cfg := cfg
				res := exploreProgram(c, p, cfg, r, func(ex *explore.Exec) bool {
					if len(ex.Res.Panics) > 0 || ex.Res.Err != "" {
						return true
					}
					done := "complete"
					for _, l := range ex.LiveAtQuiescence() {
						if l.Kind != "send" {
							done = "stuck"
						}
					}
					if cfg.Mode == 2 {
						// the property claims only the printed multiset for non-polarized mode
						// (there a dropped provider is never reclaimed and stays blocked)
						done = "n/a"
					}
					k := "prints={" + ex.PrintMultiset() + "}"
					if done != "n/a" {
						if _, ok := seenDone[done]; !ok {
							seenDone[done] = obs{cfg, ex.Res.Choices, ex.OutcomeKey()}
						}
					}
					if _, ok := seen[k]; !ok {
						seen[k] = obs{cfg, ex.Res.Choices, ex.OutcomeKey()}
					}
					return true
				})
				if res.skipped != "" {
					return
				}
			}
			if len(seen) == 1 && len(seenDone) > 1 {
				seen = seenDone
			}
			if len(seen) > 1 {
				var ks []string
				for k := range seen {
					ks = append(ks, k)
				}
				sort.Strings(ks)
				a, b := seen[ks[0]], seen[ks[1]]
				if confirm(p, a.cfg, a.choices, a.full, 5) && confirm(p, b.cfg, b.choices, b.full, 5) {
					r.Violation(harness.Violation{Key: "nondeterministic outcome: " + p.Name, Desc: fmt.Sprintf("%s has %d distinct outcomes: %s", p.Name, len(ks), strings.Join(ks, "  ||  ")),
						Replay: map[string]interface{}{"kind": "schedule-pair", "program_name": p.Name, "program": p.Text,
							"mode": a.cfg.Mode, "monitor": a.cfg.Monitor, "choices": a.choices, "observed": ks[0],
							"other": map[string]interface{}{"mode": b.cfg.Mode, "monitor": b.cfg.Monitor, "choices": b.choices, "observed": ks[1]}}})
				} else {
					r.Note("unconfirmed outcome difference dropped")
				}
			}
			r.Add("programs_with_single_outcome", 1)
		},
	})
}
