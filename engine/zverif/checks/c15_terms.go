package checks

import (
	"fmt"
	"strings"

	"grits/parser"
	"grits/process"
	"grits/zverif/harness"
	"grits/zverif/vsched"
)

// c15TermCase: parse a program, print every function/process body with Form.String(), parse the
// printed text back as a process body and compare with process.EqualForm.
func c15TermCase(name, text string, r *harness.Rec) {
	type body struct {
		where string
		form  process.Form
	}
	var bodies []body
	vsched.Run(nil, vsched.Options{MaxSteps: 5000}, func() {
		procs, _, env, err := parser.ParseString(text)
		if err != nil {
			return
		}
		for _, f := range *env.FunctionDefinitions {
			if !f.UsesExplicitProvider {
				bodies = append(bodies, body{"function " + f.FunctionName, f.Body})
			}
		}
		for _, p := range procs {
			bodies = append(bodies, body{"process " + p.OutlineString(), p.Body})
		}
	})
	for _, b := range bodies {
		printed := b.form.String()
		r.Add("evaluations", 1)
		if strings.Contains(printed, ";") || strings.Contains(printed, "(") {
			r.Add("distinct_nontrivial", 1)
		}
		var back process.Form
		var perr string
		vsched.Run(nil, vsched.Options{MaxSteps: 5000}, func() {
			procs, _, _, err := parser.ParseString("prc[zz1, zz2] = " + printed)
			if err != nil {
				perr = err.Error()
				return
			}
			if len(procs) == 1 {
				back = procs[0].Body
			}
		})
		rp := map[string]interface{}{"kind": "term-roundtrip", "program": text, "where": b.where, "printed": printed}
		if back == nil {
			r.Violation(harness.Violation{Key: "printed term does not parse", Desc: fmt.Sprintf("%s / %s: String() = %q does not parse back: %s", name, b.where, printed, perr), Replay: rp})
			continue
		}
		if !process.EqualForm(b.form, back) {
			r.Violation(harness.Violation{Key: "term: print then parse is not the identity", Desc: fmt.Sprintf("%s / %s: %q parses back to a different term (%q)", name, b.where, printed, back.String()), Replay: rp})
			continue
		}
		if back.String() != printed {
			r.Violation(harness.Violation{Key: "term: printing is not stable", Desc: fmt.Sprintf("%s / %s: %q re-prints as %q", name, b.where, printed, back.String()), Replay: rp})
		}
		if len(printed) < 120 {
			r.Sample("term: " + printed)
		}
	}
}
