package checks

import (
	"fmt"
	"strings"

	"grits/parser"
	"grits/process"
	"grits/types"
	"grits/zverif/ref"
	"grits/zverif/vfuel"
	"grits/zverif/vsched"
)

// fromReal converts a real session type into the reference representation (modes included).
func fromReal(t types.SessionType) *ref.Ty {
	switch x := t.(type) {
	case *types.LabelType:
		return &ref.Ty{K: ref.KName, Name: x.Label, M: refModeOf(x.Mode)}
	case *types.UnitType:
		return &ref.Ty{K: ref.KUnit, M: refModeOf(x.Mode)}
	case *types.SendType:
		return &ref.Ty{K: ref.KTensor, L: fromReal(x.Left), R: fromReal(x.Right), M: refModeOf(x.Mode)}
	case *types.ReceiveType:
		return &ref.Ty{K: ref.KLolli, L: fromReal(x.Left), R: fromReal(x.Right), M: refModeOf(x.Mode)}
	case *types.SelectLabelType:
		r := &ref.Ty{K: ref.KPlus, M: refModeOf(x.Mode)}
		for _, b := range x.Branches {
			r.Br = append(r.Br, ref.Branch{Label: b.Label, T: fromReal(b.SessionType)})
		}
		return r
	case *types.BranchCaseType:
		r := &ref.Ty{K: ref.KWith, M: refModeOf(x.Mode)}
		for _, b := range x.Branches {
			r.Br = append(r.Br, ref.Branch{Label: b.Label, T: fromReal(b.SessionType)})
		}
		return r
	case *types.UpType:
		return &ref.Ty{K: ref.KUp, From: refModeOf(x.From), To: refModeOf(x.To), R: fromReal(x.Continuation), M: refModeOf(x.To)}
	case *types.DownType:
		return &ref.Ty{K: ref.KDown, From: refModeOf(x.From), To: refModeOf(x.To), R: fromReal(x.Continuation), M: refModeOf(x.To)}
	}
	return &ref.Ty{K: ref.KName, Name: fmt.Sprintf("?%T", t)}
}

// OrderedKey is like Key but keeps the order of choice branches (print/parse identity).
func orderedKey(t *ref.Ty) string {
	switch t.K {
	case ref.KPlus, ref.KWith:
		var bs []string
		for _, b := range t.Br {
			bs = append(bs, b.Label+":"+orderedKey(b.T))
		}
		return fmt.Sprintf("%d{%s}@%d", t.K, strings.Join(bs, ","), t.M)
	case ref.KTensor, ref.KLolli:
		return fmt.Sprintf("%d(%s,%s)@%d", t.K, orderedKey(t.L), orderedKey(t.R), t.M)
	case ref.KUp, ref.KDown:
		return fmt.Sprintf("%d[%d,%d](%s)", t.K, t.From, t.To, orderedKey(t.R))
	}
	return t.Key()
}

// TCResult is the outcome of parsing + typechecking one text under the scheduler (default schedule).
type TCResult struct {
	ParseErr string
	TypeErr  string
	Panics   []string
	Blocked  bool // the calling task never got an answer
	Fuel     int64
	FuelOut  bool
	Procs    []*process.Process
	Env      *process.GlobalEnvironment
	Res      *vsched.Result
}

func (r *TCResult) Accepted() bool {
	return r.ParseErr == "" && r.TypeErr == "" && len(r.Panics) == 0 && !r.Blocked
}

const tcFuel = 2_000_000

// TypecheckText parses and typechecks text; after runs inside the same execution when accepted.
func TypecheckText(text string, prefix []int, after func(r *TCResult)) *TCResult {
	out := &TCResult{}
	vfuel.Reset(tcFuel)
	answered := false
	out.Res = vsched.Run(prefix, vsched.Options{MaxSteps: 20000}, func() {
		procs, assumed, env, err := parser.ParseString(text)
		if err != nil {
			out.ParseErr = err.Error()
			answered = true
			return
		}
		env.LogLevels = []process.LogLevel{}
		out.Procs, out.Env = procs, env
		if err := process.Typecheck(procs, assumed, env); err != nil {
			out.TypeErr = err.Error()
			if out.TypeErr == "" {
				out.TypeErr = "(empty error text)"
			}
			answered = true
			return
		}
		answered = true
		if after != nil {
			after(out)
		}
	})
	out.Fuel = vfuel.Used()
	vfuel.Disarm()
	out.Blocked = !answered
	for _, t := range out.Res.Tasks {
		if t.Panic != "" {
			out.Panics = append(out.Panics, fmt.Sprintf("task %s: %s", t.Name, t.Panic))
			if strings.Contains(t.Panic, "fuel exhausted") {
				out.FuelOut = true
			}
		}
	}
	if len(out.Panics) > 0 {
		out.Blocked = false
	}
	return out
}
