package checks

import (
	"fmt"
	"sort"
	"strings"

	"grits/process"
	"grits/types"
	"grits/zverif/gen"
	"grits/zverif/harness"
	"grits/zverif/ref"
	"grits/zverif/vobs"
)

// ---------- program space: base programs and their single-edit mutants ----------

type baseProg struct {
	Name      string
	P         *ref.Program
	Text      string
	NoMutants bool // generated programs: used unmutated in the quick tier
}

var baseCache []baseProg

// extraBases lets other files (the term generator) add programs.
var extraBases []func(c *harness.Ctx) []baseProg

func basePrograms(c *harness.Ctx) []baseProg {
	if baseCache != nil {
		return baseCache
	}
	for _, p := range Corpus(c) {
		if len(p.Text) > 1500 && !c.Thorough() {
			continue
		}
		if len(p.Text) > 4000 {
			continue
		}
		rp, err := ref.ParseProgram(p.Text)
		if err != nil {
			continue
		}
		baseCache = append(baseCache, baseProg{Name: p.Name, P: rp, Text: p.Text})
	}
	for _, f := range extraBases {
		baseCache = append(baseCache, f(c)...)
	}
	return baseCache
}

const mutChunk = 250

// mutateGenerated selects the generated programs whose single-edit neighbourhood is enumerated too:
// every program whose function has two parameters and a binder (that is where shadowing can occur).
var mutateAllGenerated bool

func mutateGenerated(b baseProg) bool {
	if mutateAllGenerated {
		return true
	}
	for _, f := range b.P.Funcs {
		if f.Name == "f" && len(f.Params) == 2 {
			// every 12th derivation of a two-parameter sequent
			i := strings.LastIndex(b.Name, "#")
			j := strings.LastIndex(b.Name, ".")
			if i > 0 && j > i {
				n := 0
				fmt.Sscanf(b.Name[i+1:j], "%d", &n)
				return n%12 == 5 && strings.HasSuffix(b.Name, "00")
			}
		}
	}
	return false
}

type mutSpace struct {
	bases  []baseProg
	counts []int // mutants per base
	starts []int // first case index of each base
	total  int
}

var mutSpaceCache *mutSpace

// mutantsOf: all single edits for corpus/example programs and a subset of the generated ones; for the
// other generated programs only the binder-collision edits, restricted to the generated function f.
func mutantsOf(b baseProg) []gen.Mutation {
	if !b.NoMutants || mutateGenerated(b) {
		return gen.Mutants(b.P)
	}
	var out []gen.Mutation
	fOnly := &ref.Program{Env: b.P.Env, Assumed: b.P.Assumed}
	_ = fOnly
	for _, m := range gen.BinderMutants(b.P) {
		// keep the edits inside f: the harness functions are shared by all generated programs
		for i := range m.P.Funcs {
			if m.P.Funcs[i].Name == "f" && m.P.Funcs[i].Body.String() != b.P.Funcs[i].Body.String() {
				out = append(out, m)
			}
		}
	}
	return out
}

func getMutSpace(c *harness.Ctx) *mutSpace {
	if mutSpaceCache != nil {
		return mutSpaceCache
	}
	mutateAllGenerated = c.Thorough()
	ms := &mutSpace{bases: basePrograms(c)}
	for _, b := range ms.bases {
		n := len(mutantsOf(b))
		ms.counts = append(ms.counts, n)
		ms.starts = append(ms.starts, ms.total)
		ms.total += 1 + (n+mutChunk-1)/mutChunk
	}
	mutSpaceCache = ms
	return ms
}

// programsOfCase returns the programs (description, program) of one case index.
func (ms *mutSpace) programsOfCase(idx int) (base baseProg, out []gen.Mutation) {
	for bi := len(ms.bases) - 1; bi >= 0; bi-- {
		if idx >= ms.starts[bi] {
			base = ms.bases[bi]
			k := idx - ms.starts[bi]
			if k == 0 {
				return base, []gen.Mutation{{Desc: "original", P: base.P}}
			}
			muts := mutantsOf(base)
			lo := (k - 1) * mutChunk
			hi := lo + mutChunk
			if hi > len(muts) {
				hi = len(muts)
			}
			return base, muts[lo:hi]
		}
	}
	return
}

// ---------- Grits verdict classes ----------

func gritsErrClass(e string) string {
	e = stripNames(e)
	for _, k := range []string{"linearity requires", "not defined", "already defined", "are the same", "expected type of", "to have a", "could not match label", "does not match the branches", "not pattern matched", "is duplicated",
		"wrong number of parameters", "is undefined", "declaration of independence", "unable to drop", "unable to split", "cannot determine variable context", "invalid polarities", "has an unknown modality", "does not match the expected mode",
		"missing type", "duplicate", "is reassigned", "cannot use", "forwarding to self", "not forwarding on self", "do not match", "type error in function call", "several provider names", "expected first parameter", "already in use", "already used elsewhere",
		"close on 'self'", "to be", "is not contractive", "explicit type", "cannot be referenced directly", "should not refer to self", "cannot assign self", "requires that you", "Expected type to be"} {
		if strings.Contains(e, k) {
			return k
		}
	}
	return NormMsg(e)
}

// acceptsWithoutAnnBeforeShift: the reference accepts the program once every head annotation that
// directly precedes a shift is removed (root cause F15).
func acceptsWithoutAnnBeforeShift(p *ref.Program) bool {
	q := p.Copy()
	changed := false
	fix := func(a *ref.AnnTy) {
		if a != nil && (a.T.K == ref.KUp || a.T.K == ref.KDown) && (a.Ann != ref.MUnset || a.AnnStr != "") {
			a.Ann, a.AnnStr = ref.MUnset, ""
			changed = true
		}
	}
	for i := range q.Env.Defs {
		fix(&q.Env.Defs[i].Body)
	}
	for i := range q.Funcs {
		fix(q.Funcs[i].Result)
		for j := range q.Funcs[i].Params {
			fix(q.Funcs[i].Params[j].Ty)
		}
	}
	for i := range q.Procs {
		fix(q.Procs[i].Ty)
	}
	// annotations of typed cuts
	var walk func(t *ref.Tm)
	walk = func(t *ref.Tm) {
		if t == nil {
			return
		}
		if t.K == ref.TNew {
			fix(t.Ty)
		}
		walk(t.Body)
		walk(t.Cont)
		for i := range t.Branches {
			walk(t.Branches[i].Body)
		}
	}
	for i := range q.Funcs {
		walk(q.Funcs[i].Body)
	}
	for i := range q.Procs {
		walk(q.Procs[i].Body)
	}
	if !changed {
		return false
	}
	v, _ := ref.CheckProgram(q, false)
	return v.Kind == "accept"
}

var substructural = map[string]bool{"linearity": true, "weakening": true, "contraction": true, "scope": true}

func progDesc(base baseProg, m gen.Mutation) string { return base.Name + " / " + m.Desc }

func init() {
	progRule := "programs = the driver corpus and the closed example files (parsed into the reference AST by an independent parser) plus the generated programs of the term enumerator, each with ALL single edits of the E-mut enumerator (replace any name occurrence by any identifier of the program, swap payload/continuation, change labels, remove/duplicate/insert drop, split, wait and print nodes, add/remove/duplicate case branches, change call arity and callee, change every mode annotation and shift mode, replace types, flip type constructors, add a second provider name)"
	// ---------------- C07 + C05 ----------------
	mk := func(id string, only func(v ref.Verdict) bool, extraRule string) {
		harness.Register(&harness.Check{
			ID: id, Level: "exploration",
			Rule:        progRule + "; " + extraRule,
			Assumptions: []string{"R-tc (ref/tc.go) is the declarative system as documented; constructs outside it (explicit polarities, cut bodies that are neither axioms nor calls, annotated cuts whose body is a call) are classified unknown and skipped"},
			Cases:       func(c *harness.Ctx) int { return getMutSpace(c).total },
			Run: func(c *harness.Ctx, idx int, r *harness.Rec) {
				base, progs := getMutSpace(c).programsOfCase(idx)
				for _, m := range progs {
					text := m.P.String()
					v, _ := ref.CheckProgram(m.P.Copy(), false)
					r.Add("evaluations", 1)
					if v.Kind == "unknown" {
						r.Note("unknown: " + v.Reason)
						continue
					}
					g := TypecheckText(text, nil, nil)
					if g.ParseErr != "" {
						r.Note("mutant does not parse (skipped)")
						continue
					}
					if len(g.Panics) > 0 || g.Blocked {
						continue // C09's subject
					}
					r.Add("distinct_nontrivial", 1)
					ga := g.TypeErr == ""
					ra := v.Kind == "accept"
					if ga && ra {
						r.Add("both_accept", 1)
					} else if !ga && !ra {
						r.Add("both_reject", 1)
					}
					if idx%5 == 0 && m.Desc != "original" && len(text) < 400 {
						r.Sample(map[string]interface{}{"program": progDesc(base, m), "grits": ga, "reference": v.Kind + " " + v.Reason})
					}
					if ga && !ra && v.Reason == "ill-formed-type" && acceptsWithoutAnnBeforeShift(m.P) {
						if id == "C05" {
							continue // not a substructural matter
						}
						viol(r, "annotation-before-shift-ignored", fmt.Sprintf("%s: accepted although a head annotation contradicts (or is not a mode and precedes) a shift (%s)", progDesc(base, m), v.Detail), text, nil)
					} else if ga && !ra && only(v) {
						viol(r, "false accept: "+v.Reason, fmt.Sprintf("%s: accepted, but the reference system rejects it (%s: %s)", progDesc(base, m), v.Reason, v.Detail), text, nil)
					} else if !ga && ra && id == "C07" {
						viol(r, "false reject: "+gritsErrClass(g.TypeErr), fmt.Sprintf("%s: rejected (%s), but derivable in the reference system", progDesc(base, m), g.TypeErr), text, nil)
					}
				}
			},
		})
	}
	mk("C07", func(v ref.Verdict) bool { return true }, "oracle: verdict of the real typechecker = verdict of the reference typechecker R-tc wherever R-tc is not 'unknown' (both directions); distinct_nontrivial = programs on which both gave a definite verdict")
	mk("C05", func(v ref.Verdict) bool { return substructural[v.Reason] }, "oracle: whenever the real typechecker accepts, the reference usage analysis must find every channel consumed exactly once modulo drop (W) and split/multi-name (C) and no binder shadowing a live channel (R-tc reasons linearity, weakening, contraction, scope); distinct_nontrivial = programs with a definite reference verdict")

	// ---------------- C06 ----------------
	harness.Register(&harness.Check{
		ID: "C06", Level: "exploration",
		Rule:        progRule + "; oracle: (1) a monitor on the typechecker's own judgements (hook inserted by the instrumenter at the entry of every typecheckForm): in every judgement entered while accepting a program, every x : B_k in the context must satisfy k >= m for the provider mode m (reference table R-mode); (2) every shift in every type of an accepted program is between comparable modes in the permitted direction (the program space is extended by all 32 shift forms under every annotation as definitions); distinct_nontrivial = accepted programs with at least one judgement whose context is non-empty",
		Assumptions: []string{"judgements are observed at the entry of typecheckForm (context, provider type); top-level process declarations are the known finding K1"},
		Cases:       func(c *harness.Ctx) int { return getMutSpace(c).total + 1 },
		Run: func(c *harness.Ctx, idx int, r *harness.Rec) {
			if idx == getMutSpace(c).total {
				// every one of the 32 shift forms, under every annotation, as a definition with an identity function
				sp := gen.EnvSpace{Names: []string{"A"}, Bodies: gen.Annotated(gen.Types(1, gen.TypeOpts{Shifts: gen.AllShifts()}), gen.Annotations(false)), N: 1}
				for i := 0; i < sp.Count(); i++ {
					e := sp.At(i)
					checkC06(envProgram(e), "shift form "+strings.TrimSpace(e.String()), r)
				}
				return
			}
			base, progs := getMutSpace(c).programsOfCase(idx)
			for _, m := range progs {
				text := m.P.String()
				checkC06(text, progDesc(base, m), r)
			}
		},
	})

	// ---------------- C09 ----------------
	harness.Register(&harness.Check{
		ID: "C09", Level: "model_checking",
		Rule:        progRule + ", plus every text among the enumerated token strings (<= 3 / <= 4 tokens) that the parser accepts and all 9261 alias/recursion/mode graphs over three type names with a forwarding function between two of them, and 14 regular program families at sizes 6,12,24,32 (thorough: also 48,64: chains, diamonds and cycles of top-level processes, alias chains and lassos, type cycles, call chains, long bodies, wide choices, long parameter lists, split chains); for each, ALL schedules of Typecheck's two tasks (caller and worker goroutine) are executed under the controlled scheduler (S-full), and the remaining tasks are run to quiescence after Typecheck has returned; oracle: an answer (nil or a non-empty error) within fuel, no panic in any task before or after the return, nil implies no panic; states/transitions as for C01",
		Assumptions: mcAssumptions[:2],
		Cases:       func(c *harness.Ctx) int { return getMutSpace(c).total + c09GarbageCases(c) + len(c09Families) },
		Run: func(c *harness.Ctx, idx int, r *harness.Rec) {
			ms := getMutSpace(c)
			if idx >= ms.total+c09GarbageCases(c) {
				checkC09Scaling(c, idx-ms.total-c09GarbageCases(c), r)
				return
			}
			if idx >= ms.total {
				for _, text := range c09Garbage(c, idx-ms.total) {
					checkC09(text, "token string", r)
				}
				return
			}
			base, progs := ms.programsOfCase(idx)
			for _, m := range progs {
				checkC09(m.P.String(), progDesc(base, m), r)
			}
		},
	})
}

// ---------- C06 ----------

func checkC06(text, desc string, r *harness.Rec) {
	type jv struct {
		caller string
		names  []string
		detail string
	}
	var viols []jv
	nonEmpty := false
	vobs.OnJudgement = func(caller string, args []interface{}) {
		if len(args) < 4 {
			return
		}
		gamma, ok := args[1].(process.NamesTypesCtx)
		pt, ok2 := args[3].(types.SessionType)
		if !ok || !ok2 || pt == nil {
			return
		}
		pm := refModeOf(pt.Modality())
		if len(gamma) > 0 {
			nonEmpty = true
		}
		var bad []string
		var det []string
		for n, e := range gamma {
			if e.Type == nil {
				continue
			}
			k := refModeOf(e.Type.Modality())
			if pm == ref.MUnset || pm == ref.MInvalid || k == ref.MUnset || k == ref.MInvalid {
				continue
			}
			if !ref.GE(k, pm) {
				bad = append(bad, n)
				det = append(det, fmt.Sprintf("%s : %s is not >= provider mode %s", n, k, pm))
			}
		}
		if len(bad) > 0 {
			sort.Strings(bad)
			sort.Strings(det)
			viols = append(viols, jv{caller, bad, strings.Join(det, ", ")})
		}
	}
	var shiftBad string
	g := TypecheckText(text, nil, func(t *TCResult) {
		var walk func(x *ref.Ty)
		walk = func(x *ref.Ty) {
			if x == nil {
				return
			}
			if x.K == ref.KUp && !ref.GE(x.To, x.From) {
				shiftBad = fmt.Sprintf("upshift %s /\\ %s", x.From, x.To)
			}
			if x.K == ref.KDown && !ref.GE(x.From, x.To) {
				shiftBad = fmt.Sprintf("downshift %s \\/ %s", x.From, x.To)
			}
			walk(x.L)
			walk(x.R)
			for _, b := range x.Br {
				walk(b.T)
			}
		}
		for _, d := range *t.Env.Types {
			walk(fromReal(d.SessionType))
		}
		for _, f := range *t.Env.FunctionDefinitions {
			if f.Type != nil {
				walk(fromReal(f.Type))
			}
			for _, p := range f.Parameters {
				if p.Type != nil {
					walk(fromReal(p.Type))
				}
			}
		}
		for _, p := range t.Procs {
			if p.Type != nil {
				walk(fromReal(p.Type))
			}
		}
	})
	vobs.OnJudgement = nil
	r.Add("evaluations", 1)
	if !g.Accepted() {
		return
	}
	r.Add("accepted_programs", 1)
	if nonEmpty {
		r.Add("distinct_nontrivial", 1)
		if len(text) < 420 {
			r.Sample(map[string]interface{}{"program": desc, "judgements_violating_independence": len(viols)})
		}
	}
	if shiftBad != "" {
		viol(r, "illegal shift in an accepted program", desc+": accepted with "+shiftBad, text, nil)
	}
	// attribute violations: names tainted by a violating top-level process judgement are K1
	tainted := map[string]bool{}
	for _, v := range viols {
		top := strings.HasSuffix(v.caller, "typecheckProcesses")
		if top {
			tainted = map[string]bool{}
			for _, n := range v.names {
				tainted[n] = true
			}
			viol(r, "top-level-prc-independence", desc+": top-level process declaration depends on a weaker-mode name: "+v.detail, text, nil)
			continue
		}
		if strings.HasSuffix(v.caller, "typecheckFunctionDefinitions") {
			tainted = map[string]bool{}
		}
		all := true
		for _, n := range v.names {
			if !tainted[n] {
				all = false
			}
		}
		if all {
			continue // inherited from the top-level process judgement already reported
		}
		viol(r, "judgement violates independence", desc+": a judgement entered while accepting the program has "+v.detail, text, nil)
	}
}

// ---------- C09 ----------

var c09GarbageCache = map[string][]string{}

func c09GarbageAll(c *harness.Ctx) []string {
	if g, ok := c09GarbageCache[c.Tier]; ok {
		return g
	}
	var out []string
	max := 3
	if c.Thorough() {
		max = 4
	}
	// token strings that are sentences of the reference grammar (so that the parser accepts them)
	for n := 1; n <= max; n++ {
		for i := 0; i < pow(len(tokAlphabet), n); i++ {
			s := nth(tokAlphabet, n, i, " ")
			toks, ok := ref.Tokenize(s)
			if ok && ref.Recognize(toks) {
				out = append(out, s)
			}
		}
	}
	// alias / recursion graphs over three type names, each with a function that forwards between two
	// of the names (this drives the equality and contractivity code from inside Typecheck)
	ab := aliasBodies()
	sp := gen.EnvSpace{Names: []string{"A", "B", "C"}, Bodies: ab, N: 3}
	for i := 0; i < sp.Count(); i++ {
		e := sp.At(i)
		pair := [][2]string{{"A", "B"}, {"B", "C"}, {"C", "A"}}[i%3]
		out = append(out, e.String()+fmt.Sprintf("let f(x : %s) : %s = fwd self x\n", pair[0], pair[1]))
	}
	// hand-picked grammatical fragments with odd shapes
	out = append(out,
		"type A = B type A = A let f(b : A) : A = fwd self b",
		"type A = &{l : B} type B = 1 let f(x : A) : B = x.l<+self>",
		"type A = +{l : A} type B = +{l : B} let f(x : A) : B = fwd self x",
		"let f() : 1 = f()", "let f(x : 1) : 1 = f(x, x)", "prc[a] : 1 = a()", "prc[a] = close self", "prc[a, a] : 1 = close self",
		"let f[w : 1] = close w", "let f[w : 1, x : 1] = wait x; close w prc[a] : 1 = b <- new close self; f(self, b)",
		"exec f()", "let f() : 1 = close self exec f() exec f()", "assuming x : 1", "assuming x : 1, x : 1 prc[a] : 1 = wait x; close self",
		"type A = lin /\\ rep 1 prc[a] : A = x <- shift self; close x", "prc[a] : 1 = case self ()", "prc[a] : 1 = case b () prc[b] : 1 = close self",
		"type A = +{} ", "let f(x) = close self", "let f(x : Q) : 1 = wait x; close self", "prc[a] : 1 = x : 1 <- new (y : 1 <- new close self; wait y; close self); wait x; close self")
	c09GarbageCache[c.Tier] = out
	return out
}

// c09Scaling: regular program families of growing size (chains and diamonds of top-level processes,
// alias chains, type cycles, call chains, long bodies, wide choices). An answer within the same fuel
// as for every other input is demanded, so a super-polynomial pass over any of these shapes shows up
// as "does not terminate within its fuel" at the larger sizes.
var c09Families = []string{"chain of two-name providers", "chain of two-name providers (reverse order)", "chain of one-name providers",
	"cycle of top-level processes", "alias chain", "alias lasso", "cycle of recursive definitions with two successors", "two copies of definitions with shared branches",
	"call chain", "long body", "nested type", "wide choice", "many parameters", "split chain"}

func c09Sizes(c *harness.Ctx) []int {
	sizes := []int{6, 12, 24, 32}
	if c.Thorough() {
		sizes = append(sizes, 48, 64)
	}
	return sizes
}

// checkC09Scaling runs one family at growing sizes (default schedule) and reports the smallest size at
// which the typechecker gives no answer within the fuel that suffices for every other input.
func checkC09Scaling(c *harness.Ctx, fam int, r *harness.Rec) {
	sizes := c09Sizes(c)
	all := c09Scaling(sizes)
	var fuels []string
	for si, n := range sizes {
		text := all[si*len(c09Families)+fam]
		g := TypecheckText(text, nil, nil)
		r.Add("evaluations", 1)
		r.Add("programs", 1)
		if g.ParseErr != "" {
			viol(r, "generated text does not parse", c09Families[fam]+": "+g.ParseErr, text, nil)
			return
		}
		var other []string
		for _, p := range g.Panics {
			if !strings.Contains(p, "fuel exhausted") {
				other = append(other, NormMsg(p))
			}
		}
		if len(other) > 0 {
			viol(r, "panic: "+other[0], fmt.Sprintf("%s of size %d: %v", c09Families[fam], n, other), text, nil)
			return
		}
		if g.FuelOut || g.Blocked {
			viol(r, "typechecking time explodes: "+c09Families[fam], fmt.Sprintf("%s: no answer within %d steps at size %d (steps at smaller sizes: %s)", c09Families[fam], tcFuel, n, strings.Join(fuels, ", ")), text, nil)
			return
		}
		fuels = append(fuels, fmt.Sprintf("n=%d: %d", n, g.Fuel))
	}
	r.Sample(map[string]interface{}{"family": c09Families[fam], "steps": strings.Join(fuels, ", ")})
}

func c09Scaling(sizes []int) []string {
	var out []string
	for _, n := range sizes {
		var b strings.Builder
		// 1. chain of two-name providers, each consuming both names of its predecessor (diamonds in the 'uses' graph)
		b.WriteString("prc[a0, b0] : 1 = close self\n")
		for i := 1; i < n; i++ {
			fmt.Fprintf(&b, "prc[a%d, b%d] : 1 = wait a%d; wait b%d; close self\n", i, i, i-1, i-1)
		}
		fmt.Fprintf(&b, "prc[z] : 1 = wait a%d; wait b%d; close self\n", n-1, n-1)
		out = append(out, b.String())
		// 2. the same, declared in reverse order
		b.Reset()
		fmt.Fprintf(&b, "prc[z] : 1 = wait a%d; wait b%d; close self\n", n-1, n-1)
		for i := n - 1; i >= 1; i-- {
			fmt.Fprintf(&b, "prc[a%d, b%d] : 1 = wait a%d; wait b%d; close self\n", i, i, i-1, i-1)
		}
		b.WriteString("prc[a0, b0] : 1 = close self\n")
		out = append(out, b.String())
		// 3. chain of single-name providers
		b.Reset()
		b.WriteString("prc[a0] : 1 = close self\n")
		for i := 1; i < n; i++ {
			fmt.Fprintf(&b, "prc[a%d] : 1 = wait a%d; close self\n", i, i-1)
		}
		out = append(out, b.String())
		// 4. a long cycle of top-level processes (rejected)
		b.Reset()
		for i := 0; i < n; i++ {
			fmt.Fprintf(&b, "prc[a%d] : 1 = wait a%d; close self\n", i, (i+1)%n)
		}
		out = append(out, b.String())
		// 5. alias chain, forwarding between its two ends
		b.Reset()
		b.WriteString("type T0 = +{l : 1, r : T0}\n")
		for i := 1; i < n; i++ {
			fmt.Fprintf(&b, "type T%d = T%d\n", i, i-1)
		}
		fmt.Fprintf(&b, "let f(x : T%d) : T0 = fwd self x\n", n-1)
		out = append(out, b.String())
		// 6. alias lasso: a chain that enters a cycle of bare names (rejected: not contractive)
		b.Reset()
		for i := 0; i < n; i++ {
			fmt.Fprintf(&b, "type T%d = T%d\n", i, i+1)
		}
		fmt.Fprintf(&b, "type T%d = T%d\n", n, n/2)
		fmt.Fprintf(&b, "let f(x : T0) : T0 = fwd self x\n")
		out = append(out, b.String())
		// 7. a cycle of n mutually recursive definitions compared with a rotation of itself
		b.Reset()
		for i := 0; i < n; i++ {
			fmt.Fprintf(&b, "type T%d = +{l : T%d, r : T%d}\n", i, (i+1)%n, (i+2)%n)
		}
		fmt.Fprintf(&b, "let f(x : T0) : T%d = fwd self x\n", n/2)
		out = append(out, b.String())
		// 8. two copies of a binary-branching recursive family (equality must not re-explore shared pairs)
		b.Reset()
		for i := 0; i < n; i++ {
			fmt.Fprintf(&b, "type A%d = &{l : A%d, r : A%d}\ntype B%d = &{l : B%d, r : B%d}\n", i, (i+1)%n, (i+1)%n, i, (i+1)%n, (i+1)%n)
		}
		b.WriteString("let f(x : A0) : B0 = fwd self x\n")
		out = append(out, b.String())
		// 9. call chain
		b.Reset()
		b.WriteString("let f0(x : 1) : 1 = wait x; close self\n")
		for i := 1; i < n; i++ {
			fmt.Fprintf(&b, "let f%d(x : 1) : 1 = f%d(x)\n", i, i-1)
		}
		fmt.Fprintf(&b, "prc[a] : 1 = y <- new close self; f%d(y)\n", n-1)
		out = append(out, b.String())
		// 10. one long body: n cuts, then n waits
		b.Reset()
		b.WriteString("prc[a] : 1 = ")
		for i := 0; i < n; i++ {
			fmt.Fprintf(&b, "x%d <- new close self; ", i)
		}
		for i := 0; i < n; i++ {
			fmt.Fprintf(&b, "wait x%d; ", i)
		}
		b.WriteString("close self\n")
		out = append(out, b.String())
		// 11. nested cuts with typed annotation and n-fold nesting of the type
		b.Reset()
		ty := "1"
		for i := 0; i < n; i++ {
			ty = "1 * (" + ty + ")"
		}
		fmt.Fprintf(&b, "type N = %s\nlet f(x : N) : N = fwd self x\n", ty)
		out = append(out, b.String())
		// 12. a wide choice and a case over all of its labels
		b.Reset()
		b.WriteString("type W = +{")
		for i := 0; i < n; i++ {
			if i > 0 {
				b.WriteString(", ")
			}
			fmt.Fprintf(&b, "l%d : 1", i)
		}
		b.WriteString("}\nlet f(x : W) : 1 = case x (")
		for i := 0; i < n; i++ {
			if i > 0 {
				b.WriteString(" | ")
			}
			fmt.Fprintf(&b, "l%d<y> => wait y; close self", i)
		}
		b.WriteString(")\n")
		out = append(out, b.String())
		// 13. many parameters, all dropped
		b.Reset()
		b.WriteString("let f(")
		for i := 0; i < n; i++ {
			if i > 0 {
				b.WriteString(", ")
			}
			fmt.Fprintf(&b, "p%d : 1", i)
		}
		b.WriteString(") : 1 = ")
		for i := 0; i < n; i++ {
			fmt.Fprintf(&b, "drop p%d; ", i)
		}
		b.WriteString("close self\n")
		out = append(out, b.String())
		// 14. a chain of splits of one replicable channel
		b.Reset()
		b.WriteString("let f(x0 : 1) : 1 = ")
		for i := 0; i < n; i++ {
			fmt.Fprintf(&b, "<y%d, x%d> <- split x%d; wait y%d; ", i, i+1, i, i)
		}
		fmt.Fprintf(&b, "wait x%d; close self\n", n)
		out = append(out, b.String())
	}
	return out
}

const garbageChunk = 200

func c09GarbageCases(c *harness.Ctx) int {
	return (len(c09GarbageAll(c)) + garbageChunk - 1) / garbageChunk
}

func c09Garbage(c *harness.Ctx, k int) []string {
	all := c09GarbageAll(c)
	lo, hi := k*garbageChunk, (k+1)*garbageChunk
	if hi > len(all) {
		hi = len(all)
	}
	return all[lo:hi]
}

func checkC09(text, desc string, r *harness.Rec) {
	// depth-first enumeration of all schedules (the choice tree is tiny: two tasks, a handful of points)
	var rec func(prefix []int, depth int)
	execs := 0
	states := map[uint64]struct{}{}
	var trans int64
	reported := map[string]bool{}
	rec = func(prefix []int, depth int) {
		if execs > 200 {
			r.Add("capped", 1)
			return
		}
		g := TypecheckText(text, prefix, nil)
		execs++
		trans += int64(len(g.Res.Steps))
		for _, p := range g.Res.Points {
			states[p.FP] = struct{}{}
		}
		if g.ParseErr != "" && depth == 0 {
			r.Note("text does not parse (skipped)")
			return
		}
		var problems []string
		if g.FuelOut {
			problems = append(problems, "typechecker does not terminate within its fuel")
		}
		for _, p := range g.Panics {
			if !strings.Contains(p, "fuel exhausted") {
				problems = append(problems, "panic: "+NormMsg(p))
			}
		}
		if g.Blocked && len(g.Panics) == 0 {
			problems = append(problems, "Typecheck never returns")
		}
		if g.Res.Err != "" {
			problems = append(problems, "engine: "+g.Res.Err)
		}
		for _, pb := range problems {
			if reported[pb] {
				continue
			}
			reported[pb] = true
			ok := true
			for i := 0; i < 3; i++ {
				g2 := TypecheckText(text, g.Res.Choices, nil)
				if (len(g2.Panics) > 0) != (len(g.Panics) > 0) || g2.Blocked != g.Blocked {
					ok = false
				}
			}
			if !ok {
				r.Note("unconfirmed problem dropped")
				continue
			}
			verdict := "error returned"
			if g.TypeErr == "" && !g.Blocked {
				verdict = "SUCCESS returned"
			}
			viol(r, pb, fmt.Sprintf("%s: %s (caller saw: %s)", desc, pb, verdict), text, map[string]interface{}{"choices": g.Res.Choices})
		}
		for _, t := range g.Res.Tasks {
			if !t.Done && t.Started {
				r.Note("info: a typechecker task is left blocked forever (leak)")
			}
		}
		pts := g.Res.Points
		for i := len(prefix); i < len(pts); i++ {
			for alt := 1; alt < len(pts[i].Enabled); alt++ {
				rec(append(append([]int{}, g.Res.Choices[:i]...), alt), depth+1)
			}
		}
	}
	rec(nil, 0)
	r.Add("evaluations", int64(execs))
	r.Add("traces_validated_against_impl", int64(execs))
	r.Add("states", int64(len(states)))
	r.Add("transitions", trans)
	r.Add("programs", 1)
	if execs > 1 {
		r.Sample(map[string]interface{}{"program": desc, "schedules": execs})
	}
}
