package checks

import (
	"grits/zverif/gen"
	"grits/zverif/harness"
	"grits/zverif/ref"
)

var genCache = map[string][]gen.GenProgram{}

// generatedPrograms: E-term programs of this tier.
func generatedPrograms(c *harness.Ctx) []gen.GenProgram {
	if g, ok := genCache[c.Tier]; ok {
		return g
	}
	var g []gen.GenProgram
	if c.Thorough() {
		g = gen.Programs(4, 2, true)
	} else {
		g = gen.Programs(3, 2, false)
	}
	genCache[c.Tier] = g
	return g
}

func init() {
	extraBases = append(extraBases, func(c *harness.Ctx) []baseProg {
		var out []baseProg
		for _, g := range generatedPrograms(c) {
			p, err := ref.ParseProgram(g.Text)
			if err != nil {
				continue
			}
			out = append(out, baseProg{Name: g.Name, P: p, Text: g.Text, NoMutants: true})
		}
		return out
	})
	prev := runtimeProgs
	runtimeProgs = func(c *harness.Ctx) []Prog {
		ps := append([]Prog{}, prev(c)...)
		for _, g := range generatedPrograms(c) {
			ps = append(ps, Prog{Name: g.Name, Text: g.Text})
		}
		return ps
	}
}
