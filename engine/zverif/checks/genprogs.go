package checks

import (
	"strings"

	"grits/zverif/gen"
	"grits/zverif/harness"
	"grits/zverif/ref"
)

var genCache = map[string][]gen.GenProgram{}

// generatedPrograms: E-term programs of this tier.
func generatedPrograms(c *harness.Ctx) []gen.GenProgram {
	if g, ok := genCache[c.Tier]; ok {
		return g
	}
	var g []gen.GenProgram
	g = gen.Programs(3, 2, c.Thorough())
	if c.Thorough() {
		seen := map[string]bool{}
		for _, x := range g {
			seen[x.Text] = true
		}
		for _, x := range gen.Programs(4, 2, false) {
			if !seen[x.Text] {
				x.Name = "gen4/" + strings.TrimPrefix(x.Name, "gen/")
				g = append(g, x)
			}
		}
	}
	genCache[c.Tier] = g
	return g
}

func init() {
	extraBases = append(extraBases, func(c *harness.Ctx) []baseProg {
		var out []baseProg
		for _, g := range generatedPrograms(c) {
			p, err := ref.ParseProgram(g.Text)
			if err != nil {
				continue
			}
			out = append(out, baseProg{Name: g.Name, P: p, Text: g.Text, NoMutants: true})
		}
		return out
	})
	prev := runtimeProgs
	runtimeProgs = func(c *harness.Ctx) []Prog {
		ps := append([]Prog{}, prev(c)...)
		for _, g := range generatedPrograms(c) {
			ps = append(ps, Prog{Name: g.Name, Text: g.Text})
		}
		return ps
	}
}
