package checks

import (
	"fmt"
	"runtime"
	"sort"
	"strings"

	"grits/parser"
	"grits/zverif/gen"
	"grits/zverif/harness"
	"grits/zverif/ref"
	"grits/zverif/vfuel"
	"grits/zverif/vsched"
)

// PResult is the outcome of parsing one text under the scheduler.
type PResult struct {
	Alloc    uint64 // bytes allocated while parsing (runtime.MemStats.TotalAlloc delta)
	Err      string
	ErrPos   bool // error is a *parser.ParseError (carries a position)
	Accepted bool
	Decls    []ref.Decl
	Panics   []string
	Blocked  bool
	Fuel     int64
	FuelOut  bool
}

const parseFuelA, parseFuelB = 4000, 60000

// growth families: texts of n and 2n lines; the bytes allocated and the fuel used may at most
// triple (plus a constant) when the length doubles - linear behaviour doubles, quadratic quadruples
type growthFamily struct {
	name string
	f    func(n int) string
}

var growthFamilies = []growthFamily{
	{"declarations", func(n int) string { return strings.Repeat("type A = 1\n", n) }},
	{"print-sequence", func(n int) string { return "prc[a] : 1 =\n" + strings.Repeat("print l;\n", n) + "close self\n" }},
	{"comment-lines", func(n int) string { return strings.Repeat("// comment line\n", n) + "type A = 1\n" }},
	{"long-comment", func(n int) string { return "type A = 1 /*\n" + strings.Repeat("* x /\n", n) + "*/\n" }},
	{"blank-lines", func(n int) string { return strings.Repeat("\n", n) + "type A = 1" + strings.Repeat(" ", n) }},
	{"exec-list", func(n int) string { return strings.Repeat("let f() : 1 = close self\n", n) + strings.Repeat("exec f()\n", n) }},
	{"process-list", func(n int) string { return strings.Repeat("prc[a] : 1 = close self\n", n) }},
	{"case-branches", func(n int) string { return "prc[a] : 1 = case x (" + strings.Repeat("l<y> => close self |\n", n) + "r<y> => close self)" }},
	{"choice-labels", func(n int) string { return "type A = +{" + strings.Repeat("l : 1,\n", n) + "r : 1}" }},
	{"parameter-list", func(n int) string { return "let f(" + strings.Repeat("x : 1,\n", n) + "y : 1) : 1 = close self" }},
	{"argument-list", func(n int) string { return "prc[a] : 1 = f(" + strings.Repeat("x,\n", n) + "y)" }},
	{"provider-names", func(n int) string { return "prc[" + strings.Repeat("x,\n", n) + "y] : 1 = close self" }},
}

func growthCase(k int, c *harness.Ctx, r *harness.Rec) {
	n1 := 3000
	if c.Thorough() {
		n1 = 8000
	}
	fam := growthFamilies[k]
	f := fam.f
	a := ParseText(f(n1))
	b := ParseText(f(2 * n1))
	r.Add("evaluations", 2)
	r.Add("distinct_nontrivial", 2)
	desc := fmt.Sprintf("family %s: %d lines -> %d bytes allocated, fuel %d; %d lines -> %d bytes, fuel %d", fam.name, n1, a.Alloc, a.Fuel, 2*n1, b.Alloc, b.Fuel)
	desc = strings.Replace(desc, "%!s(int="+fmt.Sprint(k)+")", fam.name, 1)
	r.Sample(desc)
	rp := map[string]interface{}{"kind": "parse-growth", "family": fam.name, "lines": n1, "first_line": strings.SplitN(f(2), "\n", 2)[0]}
	if b.Alloc > 3*a.Alloc+(8<<20) {
		r.Violation(harness.Violation{Key: "superlinear-memory:" + fam.name, Desc: "parser memory grows more than linearly with the length of the text; " + desc, Replay: rp})
	}
	if b.Fuel > 3*a.Fuel+100000 {
		r.Violation(harness.Violation{Key: "superlinear-steps:" + fam.name, Desc: "parser steps grow more than linearly with the length of the text; " + desc, Replay: rp})
	}
	for _, x := range []*PResult{a, b} {
		if len(x.Panics) > 0 || x.Blocked || x.FuelOut {
			r.Violation(harness.Violation{Key: "parser fails on a large input", Desc: fmt.Sprintf("%s: panics=%v blocked=%v fuel exhausted=%v", desc, x.Panics, x.Blocked, x.FuelOut), Replay: rp})
		}
	}
}

func ParseText(text string) *PResult {
	out := &PResult{}
	limit := int64(parseFuelA*len(text) + parseFuelB)
	vfuel.Reset(limit * 4)
	answered := false
	var m0, m1 runtime.MemStats
	measure := len(text) > 5000
	res := vsched.Run(nil, vsched.Options{MaxSteps: 5000}, func() {
		if measure {
			runtime.ReadMemStats(&m0)
		}
		procs, assumed, env, err := parser.ParseString(text)
		if measure {
			runtime.ReadMemStats(&m1)
			out.Alloc = m1.TotalAlloc - m0.TotalAlloc
		}
		answered = true
		if err != nil {
			out.Err = err.Error()
			_, out.ErrPos = err.(*parser.ParseError)
			if out.Err == "" {
				out.Err = "(empty error text)"
			}
			return
		}
		out.Accepted = true
		for _, p := range procs {
			for _, n := range p.Providers {
				out.Decls = append(out.Decls, ref.Decl{Kind: "process", Name: n.Ident})
			}
		}
		for _, f := range *env.FunctionDefinitions {
			out.Decls = append(out.Decls, ref.Decl{Kind: "function", Name: f.FunctionName})
		}
		for _, t := range *env.Types {
			out.Decls = append(out.Decls, ref.Decl{Kind: "type", Name: t.Name})
		}
		for _, a := range assumed {
			out.Decls = append(out.Decls, ref.Decl{Kind: "assumed", Name: a.Ident})
		}
	})
	out.Fuel = vfuel.Used()
	vfuel.Disarm()
	out.Blocked = !answered
	for _, t := range res.Tasks {
		if t.Panic != "" {
			out.Panics = append(out.Panics, t.Panic)
			if strings.Contains(t.Panic, "fuel exhausted") {
				out.FuelOut = true
			}
			out.Blocked = false
		}
	}
	return out
}

func declKey(d []ref.Decl) string {
	var s []string
	for _, x := range d {
		s = append(s, x.Kind+":"+x.Name)
	}
	sort.Strings(s)
	return strings.Join(s, " ")
}

// ---- alphabets ----

var chrFull = []string{"a", "1", "2", "_", "'", " ", "\n", ">", "(", ")", "[", "]", "{", "}", ".", ";", ":", "|", ",", "+", "*", "&", "%", "=", "<", "-", "/", "\\", "@", "é", "\x00", "\x01", "\x7f"}
var chrSub = []string{"a", "1", "o", " ", "\n", "=", "<", ">", "-", "*", "/", "\\", "@", "\x00", "'", "_", "\x0c"}

var tokAlphabet = []string{"a", "1b", "<-", "=>", "/\\", "\\/", "=", ".", ";", ":", ",", "(", ")", "[", "]", "<", ">", "|",
	"send", "recv", "receive", "case", "close", "wait", "cast", "shift", "drop", "split", "new", "type", "let", "prc", "fwd", "forward", "self", "print",
	"+", "-", "*", "&", "1", "{", "}", "-*", "-o", "%", "assuming", "exec", "accept", "acquire", "detach", "release", "push", "snew", "in", "end", "sprc"}

// strings of length exactly n over alphabet, index -> string (joined with sep)
func nth(alpha []string, n, idx int, sep string) string {
	parts := make([]string, n)
	for i := n - 1; i >= 0; i-- {
		parts[i] = alpha[idx%len(alpha)]
		idx /= len(alpha)
	}
	return strings.Join(parts, sep)
}

func pow(b, e int) int {
	r := 1
	for i := 0; i < e; i++ {
		r *= b
	}
	return r
}

type textSpace struct {
	name  string
	count int
	at    func(i int) string
}

func enumSpaces(c *harness.Ctx, forGrammar bool) []textSpace {
	var sp []textSpace
	mk := func(name string, alpha []string, n int, sep string) {
		sp = append(sp, textSpace{fmt.Sprintf("%s^%d", name, n), pow(len(alpha), n), func(i int) string { return nth(alpha, n, i, sep) }})
	}
	maxFull, maxSub, maxTok := 3, 4, 3
	if c.Thorough() {
		maxFull, maxSub, maxTok = 4, 5, 4
	}
	for n := 0; n <= maxFull; n++ {
		mk("chars", chrFull, n, "")
	}
	mk("subchars", chrSub, maxSub, "")
	for n := 1; n <= maxTok; n++ {
		mk("tokens", tokAlphabet, n, " ")
	}
	// corpus files: prefixes, single deletions, insertions of class representatives
	progs := Corpus(c)
	var derived []string
	ins := []string{"@", "#", "$", "~", "?", "é", "\x00", "\x01", "\x1f", "\x7f", "`", "\"", ")", ";", "a", "%", "/*", "//", "*/"}
	for _, p := range progs {
		t := p.Text
		if len(t) > 700 && !c.Thorough() {
			continue
		}
		if len(t) > 3000 {
			continue
		}
		for i := 0; i <= len(t); i++ {
			derived = append(derived, t[:i])
		}
		for i := 0; i < len(t); i++ {
			derived = append(derived, t[:i]+t[i+1:])
		}
		toks := tokenBoundaries(t)
		for _, b := range toks {
			for _, x := range ins {
				derived = append(derived, t[:b]+" "+x+" "+t[b:])
			}
		}
	}
	sp = append(sp, textSpace{"corpus-derived", len(derived), func(i int) string { return derived[i] }})
	// type-definition environments: all alias/recursion graphs over three names and all pairs of
	// definitions with depth-1 bodies (left- and right-recursive binary types, shifts, choices)
	ab := gen.EnvSpace{Names: []string{"A", "B", "C"}, Bodies: aliasBodies(), N: 3}
	sp = append(sp, textSpace{"alias-envs", ab.Count(), func(i int) string { return ab.At(i).String() }})
	p1 := gen.Annotated(gen.Types(1, gen.TypeOpts{Names: []string{"A", "B"}, Labels: []string{"l", "r"}, Shifts: gen.RepresentativeShifts[:4]}), []ref.AnnTy{{}, {Ann: ref.MLin}})
	e2 := gen.EnvSpace{Names: []string{"A", "B"}, Bodies: p1, N: 2}
	sp = append(sp, textSpace{"type-envs", e2.Count(), func(i int) string { return e2.At(i).String() }})
	// nesting / length families: every depth 0..maxDepth of 14 shapes whose parse stack grows with the depth
	maxDepth := 140
	if c.Thorough() {
		maxDepth = 300
	}
	rep := strings.Repeat
	shapes := []func(n int) string{
		func(n int) string { return "prc[a] : 1 = " + rep("(", n) + "f()" + rep(")", n) },
		func(n int) string { return "prc[a] : 1 = " + rep("(", n) + "close self" + rep(")", n) },
		func(n int) string { return "type A = " + rep("(", n) + "1" + rep(")", n) },
		func(n int) string { return "type A = " + rep("1 * ", n) + "1" },
		func(n int) string { return "type A = " + rep("1 -* ", n) + "B" },
		func(n int) string { return "type A = " + rep("lin /\\ lin ", n) + "1" },
		func(n int) string { return "prc[a] : 1 = " + rep("x <- new f(); wait x; ", n) + "f()" },
		func(n int) string { return "prc[a] : 1 = " + rep("print l; ", n) + "close self" },
		func(n int) string { return "prc[a] : 1 = " + rep("case y (l<y> => ", n) + "case y ()" + rep(")", n) },
		func(n int) string { return "let f(" + rep("x : 1, ", n) + "y : 1) : 1 = f()" },
		func(n int) string { return "type A = +{" + rep("l : 1, ", n) + "r : 1}" },
		func(n int) string { return rep("type A = 1\n", n) + "exec f()" },
		func(n int) string { return rep("let f() : 1 = g()\n", n+1) },
		func(n int) string { return "prc[a] : 1 = g(" + rep("x, ", n) + "self)" },
	}
	sp = append(sp, textSpace{"nesting", len(shapes) * (maxDepth + 1), func(i int) string { return shapes[i%len(shapes)](i / len(shapes)) }})
	// hand-picked texts around exec, labels that start with a digit, and keyword-like labels
	picked := []string{
		"let f(x : 1) : 1 = wait x; close self\nexec f()", "let f(x : 1, y : 1) : 1 = wait x; wait y; close self\nexec f()",
		"exec f()\nlet f() : 1 = close self", "let f[w : 1] = close w\nexec f()", "exec g()", "let f() : 1 = close self\nexec f()\nexec f()\nexec f()",
		"type 1st = 1\ntype 1nd = 1st\ntype 11 = +{1a : 1, 1b : 1st}", "prc[1x] : 1 = 1y <- new 1f(); wait 1y; close self\nlet 1f() : 1 = close self",
		"type typ = 1\ntype lets = typ\nprc[prcs] : lets = close self", "prc[a] : 1 = print 1; close self", "prc[a] : 1 = print print; close self",
		"type A = +{1 : 1}", "type 1 = 1", "prc[a] = @", "prc[a] : 1 = close self @", "type A = 1 $ type B = 1",
	}
	sp = append(sp, textSpace{"picked", len(picked), func(i int) string { return picked[i] }})
	// comment space: two declarations with comment skeletons between and after them
	cAlpha := []string{"/*", "*/", "*", "/", "x", "//", "\n"}
	var between, after []string
	for n := 0; n <= 3; n++ {
		for i := 0; i < pow(len(cAlpha), n); i++ {
			between = append(between, nth(cAlpha, n, i, " "))
			if n >= 2 {
				between = append(between, nth(cAlpha, n, i, "")) // adjacent pieces: "/***/", "/**/", "*//"
			}
		}
	}
	for n := 0; n <= 2; n++ {
		for i := 0; i < pow(len(cAlpha), n); i++ {
			after = append(after, nth(cAlpha, n, i, " "))
		}
	}
	bases := [][2]string{{"type A = 1", "type B = 1"}, {"prc[a] : 1 = close self", "prc[b] : 1 = wait a; close self"}}
	nb, na := len(between), len(after)
	sp = append(sp, textSpace{"comments", len(bases) * nb * na, func(i int) string {
		b := bases[i%len(bases)]
		i /= len(bases)
		return b[0] + " " + between[i%nb] + " " + b[1] + " " + after[i/nb]
	}})
	return sp
}

// tokenBoundaries returns byte offsets where a token starts (outside comments), plus len(t).
func tokenBoundaries(t string) []int {
	var out []int
	i := 0
	for i < len(t) {
		ch := t[i]
		switch {
		case ch == ' ' || ch == '\n' || ch == '\t' || ch == '\r':
			i++
		case strings.HasPrefix(t[i:], "//"):
			j := strings.IndexByte(t[i:], '\n')
			if j < 0 {
				i = len(t)
			} else {
				i += j + 1
			}
		case strings.HasPrefix(t[i:], "/*"):
			j := strings.Index(t[i+2:], "*/")
			if j < 0 {
				i = len(t)
			} else {
				i += j + 4
			}
		default:
			out = append(out, i)
			j := i + 1
			if isLabelByte(ch) {
				for j < len(t) && isLabelByte(t[j]) {
					j++
				}
			} else if strings.HasPrefix(t[i:], "<-") || strings.HasPrefix(t[i:], "=>") || strings.HasPrefix(t[i:], "-*") || strings.HasPrefix(t[i:], "/\\") || strings.HasPrefix(t[i:], "\\/") {
				j = i + 2
			}
			i = j
		}
	}
	return append(out, len(t))
}

func isLabelByte(b byte) bool {
	return (b >= 'a' && b <= 'z') || (b >= 'A' && b <= 'Z') || (b >= '0' && b <= '9') || b == '_' || b == '\''
}

const textChunk = 2000

func spaceTotal(sp []textSpace) int {
	n := 0
	for _, s := range sp {
		n += s.count
	}
	return n
}

func spaceAt(sp []textSpace, i int) (string, string) {
	for _, s := range sp {
		if i < s.count {
			return s.at(i), s.name
		}
		i -= s.count
	}
	return "", ""
}

var spacesCache = map[string][]textSpace{}

func getSpaces(c *harness.Ctx) []textSpace {
	if s, ok := spacesCache[c.Tier]; ok {
		return s
	}
	s := enumSpaces(c, false)
	spacesCache[c.Tier] = s
	return s
}

func quote(s string) string { return fmt.Sprintf("%q", s) }

var illegalInsert = []string{"@", "#", "$", "~", "?", "é", "\x00", "`", "\""}

func init() {
	textRule := "all character strings of length <= 3 (quick) / <= 4 (thorough) over 33 scanner character-class representatives (letters, digits, _, ', space, newline, every punctuation the scanner knows, /, \\, an illegal ASCII character, a non-ASCII rune, the byte 0, a control character, DEL), all strings of length 4 / 5 over a 16-character sub-alphabet that exercises the multi-character tokens and comments, all token strings of length <= 3 / <= 4 over 57 lexemes (one per terminal, synonyms included), for every corpus/example file every prefix, every single-character deletion and every insertion of 19 legal/illegal fragments at every token boundary, all 9261 alias/recursion/mode graphs of three type definitions and all pairs of type definitions with depth-1 bodies as texts, 14 nesting/length families (brackets, right-nested types and terms, parameter/branch/argument lists, many declarations) at every depth 0..140 (quick) / 0..300 (thorough), and two-declaration programs with every comment skeleton of <= 3 pieces (space-separated and adjacent) over {/*, */, *, /, x, //, newline} between the declarations and of <= 2 pieces after them"
	harness.Register(&harness.Check{
		ID: "C11", Level: "exploration",
		Rule:        textRule + "; each text is parsed by the real (fuel-instrumented) parser under the scheduler: it must return (not panic, not block on the error channel), within a fuel bound linear in len(text) (plus 12 growth families - many declarations, long terms, comment lines, long comments, blank lines, exec lists, process lists, case branches, choice labels, parameter/argument/provider-name lists - parsed at n and 2n lines, n = 3000 quick / 8000 thorough: bytes allocated and fuel may at most triple when the length doubles), with a program or a non-empty error; distinct_nontrivial = distinct texts with at least 2 characters",
		Assumptions: []string{fmt.Sprintf("promptness is measured in deterministic fuel ticks (function entries + loop iterations): bound %d*len+%d, calibrated on the corpus with a >10x margin", parseFuelA, parseFuelB)},
		Cases:       func(c *harness.Ctx) int { return (spaceTotal(getSpaces(c))+textChunk-1)/textChunk + len(growthFamilies) },
		Run: func(c *harness.Ctx, idx int, r *harness.Rec) {
			sp := getSpaces(c)
			total := spaceTotal(sp)
			if nc := (total + textChunk - 1) / textChunk; idx >= nc {
				growthCase(idx-nc, c, r)
				return
			}
			var maxRatio float64
			for i := idx * textChunk; i < (idx+1)*textChunk && i < total; i++ {
				text, where := spaceAt(sp, i)
				res := ParseText(text)
				r.Add("evaluations", 1)
				if len(text) >= 2 {
					r.Add("distinct_nontrivial", 1)
				}

				rp := map[string]interface{}{"kind": "parse", "text": text, "space": where}
				limit := int64(parseFuelA*len(text) + parseFuelB)
				switch {
				case res.FuelOut || res.Fuel > limit:
					r.Violation(harness.Violation{Key: "parser does not return within the linear fuel bound", Desc: fmt.Sprintf("fuel %d > %d for %s", res.Fuel, limit, quote(text)), Replay: rp})
				case len(res.Panics) > 0:
					r.Violation(harness.Violation{Key: "parser panics: " + NormMsg(res.Panics[0]), Desc: fmt.Sprintf("panic %s for %s", res.Panics[0], quote(text)), Replay: rp})
				case res.Blocked:
					r.Violation(harness.Violation{Key: "parser blocks forever", Desc: "ParseString never returns (blocked on a channel) for " + quote(text), Replay: rp})
				case !res.Accepted && res.Err == "":
					r.Violation(harness.Violation{Key: "neither program nor error", Desc: "no program and no error for " + quote(text), Replay: rp})
				}
				if !res.Accepted && res.Err != "" {
					if res.ErrPos {
						r.Add("positioned_errors", 1)
					} else {
						r.Add("unpositioned_errors", 1)
					}
				}
				if ratio := float64(res.Fuel) / float64(len(text)+10); ratio > maxRatio {
					maxRatio = ratio
				}
				if i%977 == 0 {
					r.Sample(map[string]interface{}{"text": text, "accepted": res.Accepted, "error": res.Err, "fuel": res.Fuel})
				}
			}
			if int64(maxRatio) > r.Counters["max_fuel_per_char_x"] {
				r.Counters["max_fuel_per_char_x"] = 0 // not additive; reported via notes
			}
			r.Note(fmt.Sprintf("max fuel/(len+10) in a chunk <= %d", (int(maxRatio)/100+1)*100))
		},
	})
	harness.Register(&harness.Check{
		ID: "C12", Level: "exploration",
		Rule:        textRule + "; oracle: (1) every text the real parser accepts must be accepted by the independent tokenizer + Earley recognizer R-gram, and the multiset of (kind, name) of processes, functions, types and assumed names in the parsed program must equal R-gram's; (2) every insertion of a character outside the alphabet (@ # $ ~ ? backquote, double quote, a non-ASCII rune, the byte 0) at a token boundary of a grammatical file must be rejected; distinct_nontrivial = texts accepted by at least one of the two recognizers",
		Assumptions: []string{"R-gram is the union of the README grammar and the productions of parser.y (DESIGN note 4.3); comments: // to end of line, /* to */ (or to the end of the text)"},
		Cases:       func(c *harness.Ctx) int { return (spaceTotal(getSpaces(c)) + textChunk - 1) / textChunk },
		Run: func(c *harness.Ctx, idx int, r *harness.Rec) {
			sp := getSpaces(c)
			total := spaceTotal(sp)
			for i := idx * textChunk; i < (idx+1)*textChunk && i < total; i++ {
				text, where := spaceAt(sp, i)
				res := ParseText(text)
				r.Add("evaluations", 1)
				if len(res.Panics) > 0 || res.Blocked || res.FuelOut {
					continue // C11's subject
				}
				toks, lexOK := ref.Tokenize(text)
				gram := lexOK && ref.Recognize(toks)
				if res.Accepted || gram {
					r.Add("distinct_nontrivial", 1)
				}
				rp := map[string]interface{}{"kind": "parse", "text": text, "space": where}
				if res.Accepted && !gram {
					why := "not a sentence of the grammar"
					if !lexOK {
						why = "contains material outside the language's alphabet"
					}
					r.Violation(harness.Violation{Key: "accepted although " + why, Desc: fmt.Sprintf("the parser accepts %s which is %s", quote(text), why), Replay: rp})
				} else if res.Accepted && gram {
					want := declKey(ref.Declarations(toks))
					if got := declKey(res.Decls); got != want {
						r.Violation(harness.Violation{Key: "declarations differ from the text", Desc: fmt.Sprintf("parsed program has declarations [%s], the text declares [%s]: %s", got, want, quote(text)), Replay: rp})
					}
					r.Add("accepted_texts", 1)
					if i%7 == 0 {
						r.Sample(map[string]interface{}{"text": text, "declarations": declKey(res.Decls)})
					}
				} else if !res.Accepted && gram {
					r.Add("grammatical_but_rejected", 1)
					r.Note("info: grammatical text rejected: " + NormMsg(stripNames(res.Err)))
				}
			}
		},
	})
}
