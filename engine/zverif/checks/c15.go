package checks

import (
	"fmt"
	"strings"

	"grits/zverif/gen"
	"grits/zverif/harness"
	"grits/zverif/ref"
)

var c15Cache = map[string][]ref.AnnTy{}

func c15Types(c *harness.Ctx) []ref.AnnTy {
	if p, ok := c15Cache[c.Tier]; ok {
		return p
	}
	anns := gen.Annotations(false)
	var pool []*ref.Ty
	if !c.Thorough() {
		pool = gen.Types(2, gen.TypeOpts{Names: []string{"A"}, Labels: []string{"l", "1r"}, Shifts: gen.RepresentativeShifts})
	} else {
		pool = gen.Types(2, gen.TypeOpts{Names: []string{"A"}, Labels: []string{"l", "1r"}, Shifts: gen.AllShifts()})
		lin := []gen.ShiftForm{{Up: true, From: ref.MLin, To: ref.MLin}, {Up: false, From: ref.MLin, To: ref.MLin}}
		pool = append(pool, gen.Types(3, gen.TypeOpts{Names: nil, Labels: []string{"l"}, Shifts: lin})...)
	}
	p := gen.Annotated(pool, anns)
	c15Cache[c.Tier] = p
	return p
}

const c15Chunk = 500

func init() {
	harness.Register(&harness.Check{
		ID: "C15", Level: "exploration",
		Rule:        "types: every type of depth <= 2 over 1, A, *, -*, +{l}, +{l,1r}, &{l}, &{l,1r} (one label starts with the digit 1) and 8 (quick) / all 32 (thorough) shift forms, plus depth-3 types over a reduced alphabet (thorough), under every head mode; only well-formed ones count; each is parsed by the real parser, printed with String(), re-parsed under the same head mode and compared structurally (modes, order of branches); terms: the body of every function (written with self) and multi-name process of every driver, example and generated program is printed with Form.String(), parsed back as a process body and compared with process.EqualForm, and must re-print identically; distinct_nontrivial = distinct well-formed (head mode, type) pairs with at least one binary or shift constructor",
		Assumptions: []string{"structural comparison on exported fields of the real type trees (converted to the reference representation)"},
		Cases:       func(c *harness.Ctx) int { return (len(c15Types(c))+c15Chunk-1)/c15Chunk + (len(basePrograms(c))+c15Chunk-1)/c15Chunk },
		Run: func(c *harness.Ctx, idx int, r *harness.Rec) {
			ts := c15Types(c)
			if nt := (len(ts) + c15Chunk - 1) / c15Chunk; idx >= nt {
				bs := basePrograms(c)
				for i := (idx - nt) * c15Chunk; i < (idx-nt+1)*c15Chunk && i < len(bs); i++ {
					c15TermCase(bs[i].Name, bs[i].Text, r)
				}
				return
			}
			printed := map[string]string{}
			for i := idx * c15Chunk; i < (idx+1)*c15Chunk && i < len(ts); i++ {
				a := ref.AnnTy{Ann: ts[i].Ann, T: ts[i].T.Copy()}
				env := &ref.Env{Defs: []ref.TypeDef{{Name: "A", Body: ref.AnnTy{T: ref.Unit()}}}}
				if a.Ann != ref.MUnset {
					// A must live at the annotation's mode for the type to be well-formed; define it accordingly
					env.Defs[0].Body.Ann = a.Ann
				}
				env.WellFormed()
				dm, _ := env.Elaborate()
				if env.CheckType(a, dm) != "" {
					continue
				}
				c15one(env, a, r, printed)
			}
		},
	})
}

func c15one(env *ref.Env, a ref.AnnTy, r *harness.Rec, printed map[string]string) {
	text1 := env.String() + "type T = " + a.String() + "\n"
	var k1, s1 string
	var hm ref.Mode
	res := TypecheckText(text1, nil, func(t *TCResult) {
		d := (*t.Env.Types)[1]
		k1 = orderedKey(fromReal(d.SessionType))
		s1 = d.SessionType.String()
		hm = refModeOf(d.Modality)
	})
	r.Add("evaluations", 1)
	if !res.Accepted() {
		// well-formedness verdicts are C10's subject
		r.Note("well-formed type not accepted (see C10)")
		return
	}
	if strings.ContainsAny(a.T.String(), "*/\\") {
		r.Add("distinct_nontrivial", 1)
	}
	if want := orderedKey(a.T); k1 != want {
		viol(r, "parser reads a bracketed type differently", fmt.Sprintf("the text %q parses to %s, the tree it was printed from is %s", a.String(), k1, want), text1, nil)
		return
	}
	text2 := env.String() + "type T = " + hm.String() + " " + s1 + "\n"
	var k2 string
	res2 := TypecheckText(text2, nil, func(t *TCResult) {
		k2 = orderedKey(fromReal((*t.Env.Types)[1].SessionType))
	})
	r.Add("evaluations", 1)
	if res2.ParseErr != "" {
		viol(r, "printed type does not parse", fmt.Sprintf("String() = %q does not parse: %s", s1, res2.ParseErr), text1, map[string]interface{}{"printed": s1})
		return
	}
	if !res2.Accepted() {
		viol(r, "printed type is rejected", fmt.Sprintf("String() = %q is rejected: %s %v", s1, res2.TypeErr, res2.Panics), text1, map[string]interface{}{"printed": s1})
		return
	}
	if k2 != k1 {
		viol(r, "print then parse is not the identity", fmt.Sprintf("type %q prints as %q which parses to a different type (%s vs %s)", a.String(), s1, k1, k2), text1, map[string]interface{}{"printed": s1})
	}
	pk := hm.String() + " " + s1
	if other, ok := printed[pk]; ok && other != k1 {
		viol(r, "two different types print identically", fmt.Sprintf("%q is the text of two different types", pk), text1, nil)
	}
	printed[pk] = k1
	r.Sample(hm.String() + " " + s1)
}
