package checks

import (
	"fmt"
	"sort"
	"strings"

	"grits/zverif/explore"
	"grits/zverif/harness"
	"grits/zverif/vsched"
)

// XDPOR is the self-check of the partial-order reduction (not a property check): on every corpus
// program and configuration the outcome set found by S-dpor must contain the outcome set found
// by S-delay(2).
func init() {
	harness.Register(&harness.Check{
		ID: "XDPOR", Level: "model_checking", Rule: "self-check of S-dpor against S-delay(2)",
		Cases: func(c *harness.Ctx) int { return len(Corpus(c)) * len(explore.AllConfigs) },
		Run: func(c *harness.Ctx, idx int, r *harness.Rec) {
			p := Corpus(c)[idx/len(explore.AllConfigs)]
			cfg := explore.AllConfigs[idx%len(explore.AllConfigs)]
			if !strings.HasPrefix(p.Name, "corpus/") {
				return
			}
			run := func(prefix []int) *explore.Exec {
				return explore.RunOnce(p.Text, cfg, prefix, vsched.Options{}, false)
			}
			outs := func(f func(st *explore.Stats, visit func(*explore.Exec) bool)) (map[string]bool, *explore.Stats, bool) {
				st := explore.NewStats()
				m := map[string]bool{}
				ok := true
				first := true
				f(st, func(ex *explore.Exec) bool {
					if first {
						first = false
						if !ex.Accepted() {
							ok = false
							return false
						}
					}
					m[ex.OutcomeKey()] = true
					return true
				})
				return m, st, ok
			}
			d2, st2, ok := outs(func(st *explore.Stats, v func(*explore.Exec) bool) { explore.Delay(run, 2, 60, 30000, st, v) })
			if !ok {
				return
			}
			dp, stp, _ := outs(func(st *explore.Stats, v func(*explore.Exec) bool) { explore.DPOR(run, 30000, st, v) })
			var missing []string
			for k := range d2 {
				if !dp[k] {
					missing = append(missing, k)
				}
			}
			sort.Strings(missing)
			r.Add("evaluations", st2.Execs+stp.Execs)
			r.Add("states", int64(len(stp.States)))
			r.Add("transitions", stp.Transitions)
			r.Note(fmt.Sprintf("dpor capped=%v", stp.Capped))
			r.Sample(map[string]interface{}{"program": p.Name, "config": cfg.String(), "delay2_execs": st2.Execs, "delay2_outcomes": len(d2), "dpor_execs": stp.Execs, "dpor_outcomes": len(dp), "dpor_capped": stp.Capped})
			if len(missing) > 0 && !stp.Capped {
				r.Violation(harness.Violation{Key: "dpor misses an outcome: " + p.Name + " " + cfg.String(), Desc: fmt.Sprintf("%s [%s]: delay(2) finds %d outcomes, dpor %d (execs %d); missing e.g. %s", p.Name, cfg, len(d2), len(dp), stp.Execs, missing[0]), Replay: map[string]interface{}{"kind": "dpor"}})
			}
			fmt.Fprintf(harnessDebug, "XDPOR %s %s delay2=%d/%d dpor=%d/%d capped=%v\n", p.Name, cfg, st2.Execs, len(d2), stp.Execs, len(dp), stp.Capped)
		},
	})
}
