package checks

import (
	"encoding/json"
	"fmt"
	"os"
	"os/exec"
	"sort"
	"strconv"
	"strings"

	"grits/parser"
	"grits/process"
	"grits/zverif/explore"
	"grits/zverif/harness"
	"grits/zverif/vfuel"
	"grits/zverif/vsched"
)

var c19Alphabet = []string{
	/*0*/ "prc[a] : 1 = close\n",
	/*1*/ "prc[a] : 1 = print bad; close self @\n",
	/*2*/ "type A = B\ntype A = A\nlet f(b : A) : A = fwd self b\nprc[a] : 1 = print no; close self\n",
	/*3*/ "prc[a] : 1 = print no; wait b; close self\n",
	/*4*/ "prc[a] : 1 = close self\n",
	/*5*/ "prc[a] : 1 = print a5; close self\nprc[b] : 1 = print b5; close self\n",
	/*6*/ "let main() : 1 = print m6; close self\nexec main()\n",
	/*7*/ "prc[a, b] : 1 = print d7; close self\nprc[c] : 1 = wait a; wait b; print c7; close self\n",
	/*8*/ "type T = 1\nlet f() : T = print f8; close self\nprc[a] : 1 = x <- new f(); wait x; print a8; close self\n",
	/*9*/ "type T = +{l : 1}\nlet g() : 1 = close self\nlet f() : T = u <- new g(); print f9; self.l<u>\nprc[a] : 1 = x <- new f(); case x (l<y> => wait y; print a9; close self)\n",
	/*10*/ "type N = &{go : 1}\nlet pc() : 1 = print p10; close self\nlet srv(d : 1) : N = case self ( go<c> => print never; wait d; close c )\nprc[a] : 1 = d <- new pc(); s <- new srv(d); drop s; print a10; close self\n",
	/*11*/ "type T = 1\ntype S = T\nlet f(x : S) : T = fwd self x\nprc[a] : 1 = y : 1 <- new close self; z <- new f(y); wait z; print a11; close self\n",
	/*12*/ "type T = +{l : 1}\ntype S = 1\nlet f(x : S) : T = fwd self x\nprc[a] : 1 = print a12; close self\n",
	/*13*/ "prc[a] : 1 = print a13; close self\nprc[b] : 1 = print b13; close self\n#\n",
	/*14*/ "print e14; close self\n",
	/*15*/ "type A = 1\ntype B = 1 * 1\nlet consume(x : A) : 1 = wait x; print no15; close self\nprc[p] : 1 = consume(q)\nprc[q] : B = u : 1 <- new close self; v : 1 <- new close self; send self<u, v>\n",
	/*16*/ "type A = 1\ntype B = 1\nlet consume(x : A) : 1 = wait x; print a16; close self\nprc[p] : 1 = consume(q)\nprc[q] : B = print q16; close self\n",
	/*17*/ "type A = 1\ntype B = 1\nlet consume(x : A) : 1 = wait x; print no17; close self\nprc[p] : 1 = consume(q)\nprc[q] : B = close self\nprc[r] : 1 = wait zz; close self\n",
}

// programs that are run with typechecking switched off (a bare expression has no type)
var c19SkipTC = map[int]bool{14: true}

type runOutcome struct {
	Verdict string   `json:"verdict"` // "parse-error", "type-error", "accepted"
	Prints  []string `json:"prints"`  // sorted
	Panics  []string `json:"panics"`
}

func (o runOutcome) key() string {
	return fmt.Sprintf("%s {%s} panics=%v", o.Verdict, strings.Join(o.Prints, ","), o.Panics)
}

type histExec struct {
	res      *vsched.Result
	outcomes []runOutcome
	late     []string // prints emitted by a task of an earlier run while a later run was in progress
}

// runHistory executes the programs one after another inside ONE scheduler instance.
// sharedRE: reuse ONE RuntimeEnvironment object for all runs of a history (InitializeProcesses
// re-initialises it, so this is a supported way to use the API).
var c19SharedRE bool

func runHistory(hist []int, mode int, prefix []int) *histExec {
	h := &histExec{outcomes: make([]runOutcome, len(hist))}
	taskMark := make([]int, len(hist)+1)
	eventMark := make([]int, len(hist)+1)
	vfuel.Reset(explore.FuelLimit)
	h.res = vsched.Run(prefix, vsched.Options{FreezeAfterQuiesce: true}, func() {
		var shared *process.RuntimeEnvironment
		for i, k := range hist {
			taskMark[i] = vsched.NumTasks()
			eventMark[i] = vsched.NumEvents()
			vsched.Branching(true)
			text := c19Alphabet[k]
			procs, assumed, env, err := parser.ParseString(text)
			if err != nil {
				h.outcomes[i].Verdict = "parse-error"
				continue
			}
			env.LogLevels = []process.LogLevel{}
			if !c19SkipTC[k] {
				if err := process.Typecheck(procs, assumed, env); err != nil {
					h.outcomes[i].Verdict = "type-error"
					continue
				}
			}
			h.outcomes[i].Verdict = "accepted"
			ev := []process.Execution_Version{process.NORMAL_ASYNC, process.NORMAL_SYNC, process.NON_POLARIZED_SYNC}[mode]
			re := &process.RuntimeEnvironment{GlobalEnvironment: env, ExecutionVersion: ev, Typechecked: !c19SkipTC[k], Color: false}
			if c19SharedRE {
				if shared == nil {
					shared = re
				} else {
					shared.GlobalEnvironment, shared.ExecutionVersion, shared.Typechecked = env, ev, !c19SkipTC[k]
					re = shared
				}
			}
			process.InitializeProcesses(procs, nil, nil, re)
		}
		taskMark[len(hist)] = vsched.NumTasks()
		eventMark[len(hist)] = vsched.NumEvents()
	})
	vfuel.Disarm()
	if taskMark[len(hist)] == 0 {
		taskMark[len(hist)] = len(h.res.Tasks)
		eventMark[len(hist)] = len(h.res.Events)
	}
	epoch := func(task int) int {
		e := 0
		for i := range hist {
			if taskMark[i] != 0 || i == 0 {
				if task >= taskMark[i] && taskMark[i] > 0 {
					e = i
				}
			}
		}
		return e
	}
	for ei, e := range h.res.Events {
		for _, line := range strings.Split(e.Text, "\n") {
			if !strings.HasPrefix(line, "> ") {
				continue
			}
			ep := epoch(e.Task)
			h.outcomes[ep].Prints = append(h.outcomes[ep].Prints, strings.TrimPrefix(line, "> "))
			if ep+1 < len(hist) && ei >= eventMark[ep+1] && eventMark[ep+1] > 0 {
				h.late = append(h.late, fmt.Sprintf("run %d prints %s during a later run", ep, line))
			}
		}
	}
	for _, t := range h.res.Tasks {
		if t.Panic != "" && t.ID > 0 {
			ep := epoch(t.ID)
			h.outcomes[ep].Panics = append(h.outcomes[ep].Panics, NormMsg(t.Panic))
		} else if t.Panic != "" {
			h.outcomes[len(hist)-1].Panics = append(h.outcomes[len(hist)-1].Panics, "main: "+NormMsg(t.Panic))
		}
	}
	for i := range h.outcomes {
		sort.Strings(h.outcomes[i].Prints)
		sort.Strings(h.outcomes[i].Panics)
	}
	return h
}

// C19Solo runs one alphabet program alone (called in a fresh process) and prints its outcome as JSON.
func C19Solo(arg string) string {
	parts := strings.Split(arg, ",")
	k, _ := strconv.Atoi(parts[0])
	mode, _ := strconv.Atoi(parts[1])
	h := runHistory([]int{k}, mode, nil)
	b, _ := json.Marshal(h.outcomes[0])
	return string(b)
}

var soloCache = map[string]runOutcome{}

func soloOutcome(k, mode int) (runOutcome, error) {
	key := fmt.Sprintf("%d,%d", k, mode)
	if o, ok := soloCache[key]; ok {
		return o, nil
	}
	self, _ := os.Executable()
	out, err := exec.Command(self, "-solo", key).Output()
	if err != nil {
		return runOutcome{}, err
	}
	var o runOutcome
	if err := json.Unmarshal([]byte(strings.TrimSpace(string(out))), &o); err != nil {
		return o, err
	}
	soloCache[key] = o
	return o, nil
}

type c19Case struct {
	hist   []int
	mode   int
	delay  int
	shared bool
}

var c19CasesCache = map[string][]c19Case{}

func c19Cases(c *harness.Ctx) []c19Case {
	if cs, ok := c19CasesCache[c.Tier]; ok {
		return cs
	}
	n := len(c19Alphabet)
	var out []c19Case
	fullLen, shallowLen := 3, 3
	if c.Thorough() {
		fullLen, shallowLen = 3, 4
	}
	var rec func(h []int, l int)
	rec = func(h []int, l int) {
		if len(h) == l {
			d := 1
			if c.Thorough() && l <= 2 {
				d = 2
			}
			if l > fullLen {
				d = 0
			}
			if c.Thorough() && l == 4 {
				d = 1
			}
			for mode := 0; mode < 2; mode++ {
				out = append(out, c19Case{append([]int{}, h...), mode, d, false})
			}
			if l == 2 {
				// one RuntimeEnvironment object reused by both runs
				out = append(out, c19Case{append([]int{}, h...), 0, d, true})
			}
			return
		}
		for k := 0; k < n; k++ {
			rec(append(h, k), l)
		}
	}
	for l := 1; l <= shallowLen; l++ {
		rec(nil, l)
	}
	c19CasesCache[c.Tier] = out
	return out
}

const c19Chunk = 20

func init() {
	harness.Register(&harness.Check{
		ID: "C19", Level: "model_checking",
		Rule: "breadth-first over histories: all sequences of length <= 3 over an alphabet of 18 programs chosen to leave residue (unparseable, illegal character, two rejected programs, silent, printing with goroutines left blocked after cancellation, exec counter, multi-name provider, two programs reusing type/function/process names with different meanings, a drop cascade, two programs reusing type names with equal / unequal definitions, three programs comparing two type names at a call argument where they are unequal (rejected) / equal (accepted) / equal in a program rejected for another reason, valid statements followed by an illegal character, a bare expression run without typechecking), in async and sync polarized mode, each history executed inside ONE scheduler instance (all histories of length 2 additionally with ONE RuntimeEnvironment object reused by both runs) so that tasks left over from earlier runs stay schedulable during later ones, over all schedules with delay <= 1 (delay <= 2 for length <= 2 in the thorough tier); thorough also all histories of length 4 with delay <= 1; differential oracle: verdict, printed multiset and panics of the i-th run equal those of the same program run alone in a FRESH process; no task panics at all (a panic kills the host and every later run); no task of an earlier run prints during a later run; a worker process executes many histories one after another, so state leaking between histories is detected as well; states/transitions as in C01",
		Assumptions: append([]string{"prints and panics are attributed to runs by the epoch in which their task was created"}, mcAssumptions...),
		Cases:       func(c *harness.Ctx) int { return (len(c19Cases(c)) + c19Chunk - 1) / c19Chunk },
		Run: func(c *harness.Ctx, idx int, r *harness.Rec) {
			cs := c19Cases(c)
			for i := idx * c19Chunk; i < (idx+1)*c19Chunk && i < len(cs); i++ {
				c19one(c, cs[i], r)
			}
		},
	})
}

func c19one(c *harness.Ctx, cs c19Case, r *harness.Rec) {
	c19SharedRE = cs.shared
	defer func() { c19SharedRE = false }()
	var want []runOutcome
	for _, k := range cs.hist {
		o, err := soloOutcome(k, cs.mode)
		if err != nil {
			r.Note("solo baseline failed: " + err.Error())
			r.Add("capped", 1)
			return
		}
		want = append(want, o)
	}
	states := map[uint64]struct{}{}
	var execs, trans int64
	reported := map[string]bool{}
	var rec func(prefix []int, used int)
	rec = func(prefix []int, used int) {
		if execs > 4000 {
			r.Add("capped", 1)
			return
		}
		h := runHistory(cs.hist, cs.mode, prefix)
		execs++
		trans += int64(len(h.res.Steps))
		for _, p := range h.res.Points {
			states[p.FP] = struct{}{}
		}
		if h.res.Err != "" {
			if h.res.Err == "step budget exceeded" {
				r.Add("capped", 1)
			} else {
				r.Note("engine: " + h.res.Err)
			}
			return
		}
		report := func(key, desc string) {
			if reported[key] {
				return
			}
			reported[key] = true
			h2 := runHistory(cs.hist, cs.mode, h.res.Choices)
			same := len(h2.outcomes) == len(h.outcomes)
			for i := range h.outcomes {
				if same && h2.outcomes[i].key() != h.outcomes[i].key() {
					same = false
				}
			}
			if !same {
				r.Note("unconfirmed difference dropped")
				return
			}
			var texts []string
			for _, k := range cs.hist {
				texts = append(texts, c19Alphabet[k])
			}
			r.Violation(harness.Violation{Key: key, Desc: fmt.Sprintf("history %v mode %s shared-runtime-environment=%v: %s", cs.hist, modeName(cs.mode), cs.shared, desc),
				Replay: map[string]interface{}{"kind": "history", "history": cs.hist, "programs": texts, "mode": cs.mode, "shared": cs.shared, "choices": h.res.Choices}})
		}
		for i := range cs.hist {
			if h.outcomes[i].key() != want[i].key() {
				report(fmt.Sprintf("run of program %d differs from a fresh process after %v", cs.hist[i], cs.hist[:i]),
					fmt.Sprintf("run %d (program %d) gives %s, alone in a fresh process it gives %s", i, cs.hist[i], h.outcomes[i].key(), want[i].key()))
			}
		}
		for _, l := range h.late {
			report("leftover activity of an earlier run prints during a later run", l)
		}
		for i := range cs.hist {
			for _, pn := range h.outcomes[i].Panics {
				// a panic in any task kills the host process and with it every later run
				report("a task started by run of program "+fmt.Sprint(cs.hist[i])+" panics: "+pn, fmt.Sprintf("task of run %d (program %d) panics: %s", i, cs.hist[i], pn))
			}
		}
		pts := h.res.Points
		cost := used
		for i := len(prefix); i < len(pts) && i < 80; i++ {
			for alt := 1; alt < len(pts[i].Enabled); alt++ {
				if cost+alt > cs.delay {
					break
				}
				rec(append(append([]int{}, h.res.Choices[:i]...), alt), cost+alt)
			}
		}
	}
	rec(nil, 0)
	r.Add("evaluations", execs)
	r.Add("traces_validated_against_impl", execs)
	r.Add("states", int64(len(states)))
	r.Add("transitions", trans)
	r.Add("histories", 1)
	if len(cs.hist) == 2 {
		r.Sample(map[string]interface{}{"history": cs.hist, "mode": modeName(cs.mode), "delay_bound": cs.delay, "executions": execs})
	}
}
