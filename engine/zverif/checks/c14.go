package checks

import (
	"fmt"
	"sort"
	"strings"

	"grits/zverif/explore"
	"grits/zverif/gen"
	"grits/zverif/harness"
	"grits/zverif/ref"
	"grits/zverif/vsched"
)

const renChunk = 40

type renSpace struct {
	bases  []baseProg
	starts []int
	counts []int
	total  int
}

var renSpaceCache *renSpace

func maxPerms(c *harness.Ctx) int {
	if c.Thorough() {
		return 200
	}
	return 30
}

func renamingsFor(c *harness.Ctx, b baseProg) []gen.Renaming {
	if strings.HasPrefix(b.Name, "gen") {
		mp := 4
		if c.Thorough() {
			mp = 20
		}
		return gen.RenamingsOf(b.P, mp, "f")
	}
	return gen.Renamings(b.P, maxPerms(c))
}

func getRenSpace(c *harness.Ctx) *renSpace {
	if renSpaceCache != nil {
		return renSpaceCache
	}
	rs := &renSpace{bases: basePrograms(c)}
	for _, b := range rs.bases {
		n := len(renamingsFor(c, b))
		rs.counts = append(rs.counts, n)
		rs.starts = append(rs.starts, rs.total)
		rs.total += (n + renChunk - 1) / renChunk
		if n == 0 {
			rs.total++
		}
	}
	renSpaceCache = rs
	return rs
}

// outcomes of a program in both polarized modes: set of "mode: multiset completion"
func polarizedOutcomes(text string, d, horizon int, r *harness.Rec) (map[string]bool, string) {
	out := map[string]bool{}
	for _, cfg := range []explore.Config{{Mode: 0}, {Mode: 1}} {
		cfg := cfg
		st := explore.NewStats()
		skipped := ""
		first := true
		explore.Delay(func(prefix []int) *explore.Exec {
			return explore.RunOnce(text, cfg, prefix, vsched.Options{}, false)
		}, d, horizon, 3000, st, func(ex *explore.Exec) bool {
			if first {
				first = false
				if !ex.Accepted() {
					skipped = "not accepted"
					return false
				}
				if ex.Res.Err == "step budget exceeded" || fuelPanic(ex) {
					skipped = "possibly non-terminating"
					return false
				}
			}
			done := "complete"
			for _, l := range ex.LiveAtQuiescence() {
				if l.Kind != "send" {
					done = "stuck"
				}
			}
			var ps []string
			for _, p := range ex.Res.Panics {
				ps = append(ps, NormMsg(p))
			}
			sort.Strings(ps)
			out[fmt.Sprintf("%s: {%s} %s %v", modeName(cfg.Mode), ex.PrintMultiset(), done, ps)] = true
			return true
		})
		r.Add("evaluations", st.Execs)
		r.Add("traces_validated_against_impl", st.Execs)
		r.Add("transitions", st.Transitions)
		r.Add("states", int64(len(st.States)))
		if skipped != "" {
			return nil, skipped
		}
	}
	return out, ""
}

func setStr(m map[string]bool) string {
	var ks []string
	for k := range m {
		ks = append(ks, k)
	}
	sort.Strings(ks)
	return strings.Join(ks, " | ")
}

func init() {
	harness.Register(&harness.Check{
		ID: "C14", Level: "model_checking",
		Rule: "for every driver/example/generated program P: every admissible renaming of E-ren (each bound channel name and function parameter renamed to every identifier that occurs elsewhere in the program but not in the same declaration - collision seeking - and to fresh names; top-level process names; type names, function names and labels renamed to fresh names and swapped pairwise; a type named like a mode) and every permutation of the declarations (all n! for n <= 5, else transpositions, rotations, reversal); for generated programs the channel-name renamings are restricted to the generated function and the declaration permutations to a few; renamings under which the reference typechecker's own verdict changes (P or r(P) breaks the no-shadowing convention for binders) are skipped; additionally, for every program M obtained from P by renaming ONE binding occurrence to another identifier of the program (the collision-seeking binder mutants, mostly rejected programs) every alpha-renaming of one binder of M to a fresh name; oracle: verdict(P) = verdict(r(P)) (same for M), and for accepted terminating P the outcomes of r(P) (printed multiset, completion, panics) under the default schedule (quick; thorough: size-4 generated programs) / all schedules with delay <= 1 (thorough, all other programs) in both polarized modes are among the outcomes of P explored with delay <= 1; states/transitions as in C01",
		Assumptions: append([]string{"renamings are computed on the reference AST by an independent binder analysis (ref/terms.go, gen/ren.go)"}, mcAssumptions...),
		Cases:       func(c *harness.Ctx) int { return getRenSpace(c).total + len(getRenSpace(c).bases) },
		Run: func(c *harness.Ctx, idx int, r *harness.Rec) {
			rs := getRenSpace(c)
			if idx >= rs.total {
				c14Collisions(c, rs.bases[idx-rs.total], r)
				return
			}
			var base baseProg
			var k int
			for bi := len(rs.bases) - 1; bi >= 0; bi-- {
				if idx >= rs.starts[bi] {
					base, k = rs.bases[bi], idx-rs.starts[bi]
					break
				}
			}
			all := renamingsFor(c, base)
			lo, hi := k*renChunk, (k+1)*renChunk
			if hi > len(all) {
				hi = len(all)
			}
			if lo >= hi {
				return
			}
			text := base.P.String()
			g0 := TypecheckText(text, nil, nil)
			if g0.ParseErr != "" || len(g0.Panics) > 0 || g0.Blocked {
				r.Note("base program unusable (see C09/C12)")
				return
			}
			acc0 := g0.TypeErr == ""
			v0, _ := ref.CheckProgram(base.P.Copy(), true)
			var out0 map[string]bool
			closed := len(base.P.Assumed) == 0
			if acc0 && closed {
				var skipped string
				out0, skipped = polarizedOutcomes(text, 1, tierHorizon(c), r)
				if skipped != "" {
					r.Note("base program skipped for the outcome comparison: " + skipped)
					out0 = nil
				}
			}
			dv := 0
			if c.Thorough() && !strings.HasPrefix(base.Name, "gen4/") {
				dv = 1 // the 34 000 size-4 generated programs keep the default schedule for the renamed program
			}
			for _, rn := range all[lo:hi] {
				rtext := rn.P.String()
				g := TypecheckText(rtext, nil, nil)
				r.Add("evaluations", 1)
				r.Add("renamings", 1)
				if g.ParseErr != "" {
					viol(r, "renamed program does not parse", fmt.Sprintf("%s / %s: %s", base.Name, rn.Desc, g.ParseErr), rtext, map[string]interface{}{"original": text})
					continue
				}
				if len(g.Panics) > 0 || g.Blocked {
					viol(r, "typechecker crashes on a renamed program", fmt.Sprintf("%s / %s: %v", base.Name, rn.Desc, g.Panics), rtext, map[string]interface{}{"original": text})
					continue
				}
				if vr, _ := ref.CheckProgram(rn.P.Copy(), true); vr.Kind != v0.Kind {
					// the declarative system itself is not invariant here: P (or r(P)) breaks the freshness
					// convention for binders, which both systems share and which renaming can repair
					r.Note("skipped: reference verdict changes under the renaming (freshness convention)")
					continue
				}
				if (g.TypeErr == "") != acc0 {
					viol(r, "verdict changes under "+renClass(rn.Desc), fmt.Sprintf("%s / %s: original accepted=%v (%s), renamed accepted=%v (%s)", base.Name, rn.Desc, acc0, g0.TypeErr, g.TypeErr == "", g.TypeErr), rtext, map[string]interface{}{"original": text})
					continue
				}
				if out0 != nil {
					out, skipped := polarizedOutcomes(rtext, dv, tierHorizon(c), r)
					if skipped != "" {
						viol(r, "outcome changes under "+renClass(rn.Desc), fmt.Sprintf("%s / %s: renamed program is %s", base.Name, rn.Desc, skipped), rtext, map[string]interface{}{"original": text})
						continue
					}
					for o := range out {
						if !out0[o] {
							viol(r, "outcome changes under "+renClass(rn.Desc), fmt.Sprintf("%s / %s: renamed program gives %s; original gives only %s", base.Name, rn.Desc, o, setStr(out0)), rtext, map[string]interface{}{"original": text})
							break
						}
					}
				}
				if len(rtext) < 500 {
					r.Sample(map[string]interface{}{"program": base.Name, "renaming": rn.Desc})
				}
			}
		},
	})
}

// c14Collisions: verdict invariance on the rejected side. Every binder mutant M of the base (one binding
// occurrence renamed to another identifier of the program, uses untouched) against every alpha-renaming
// of one binder of M to a fresh name; pairs on which the reference verdict differs (the collision was the
// reason for the rejection, or M uses the binder's old name) are skipped.
func c14Collisions(c *harness.Ctx, base baseProg, r *harness.Rec) {
	muts := gen.BinderMutants(base.P)
	for _, m := range muts {
		mtext := m.P.String()
		vm, _ := ref.CheckProgram(m.P.Copy(), true)
		if vm.Kind == "unknown" {
			continue
		}
		rens := gen.FreshBinderRenamings(m.P)
		if len(rens) == 0 {
			continue
		}
		gm := TypecheckText(mtext, nil, nil)
		r.Add("evaluations", 1)
		if gm.ParseErr != "" || len(gm.Panics) > 0 || gm.Blocked {
			continue // C09/C12/C15
		}
		for _, rn := range rens {
			vr, _ := ref.CheckProgram(rn.P.Copy(), true)
			if vr.Kind != vm.Kind {
				continue
			}
			rtext := rn.P.String()
			g := TypecheckText(rtext, nil, nil)
			r.Add("evaluations", 1)
			r.Add("collision_pairs", 1)
			if g.ParseErr != "" || len(g.Panics) > 0 || g.Blocked {
				continue
			}
			if (g.TypeErr == "") != (gm.TypeErr == "") {
				viol(r, "verdict changes under renaming/permutation: binder (colliding program)", fmt.Sprintf("%s / %s, then %s: accepted=%v (%s) before the renaming, accepted=%v (%s) after it; the reference verdict is %s for both", base.Name, m.Desc, rn.Desc, gm.TypeErr == "", gm.TypeErr, g.TypeErr == "", g.TypeErr, vm.Kind), rtext, map[string]interface{}{"original": mtext})
			}
		}
	}
}

func renClass(desc string) string {
	for _, k := range []string{"binder", "parameter", "process name", "type name", "swap type names", "function name", "swap function names", "label", "swap labels", "declaration order"} {
		if strings.HasPrefix(desc, k) {
			return "renaming/permutation: " + k
		}
	}
	return "renaming"
}
