package checks

import (
	"bytes"
	"fmt"
	"os"
	"os/exec"
	"path/filepath"
	"strings"
	"time"

	"grits/zverif/harness"
	"grits/zverif/ref"
)

type cliFile struct {
	Name string
	Text string
	Miss bool // file does not exist
}

func c18Files(c *harness.Ctx) []cliFile {
	fs := []cliFile{
		{Name: "syntax_error", Text: "prc[a] : 1 = close\n"},
		{Name: "empty", Text: ""},
		{Name: "illegal_char", Text: "prc[a] : 1 = print one; close self\n@ $$$ prc[b] : 1 = print two; close self\n"},
		{Name: "illegal_char_end", Text: "prc[a] : 1 = print one; close self\n#\n"},
		{Name: "nul_byte", Text: "prc[a] : 1 = print one; close self\n\x00 prc[b] : 1 = print two; close self\n"},
		{Name: "unterminated_comment", Text: "type A = 1 /* unterminated\nprc[a] : 1 = print hi; close self\n"},
		{Name: "comment_star_slash", Text: "prc[a] : 1 = print one; close self /* x * y / prc[b] : 1 = print two; close self /* z */\n"},
		{Name: "type_error_undefined", Text: "prc[a] : 1 = print hi; wait b; close self\n"},
		{Name: "type_error_linear", Text: "type A = lin 1\nlet mk() : A = close self\nprc[a] : lin 1 = x <- new mk(); print hi; close self\n"},
		{Name: "type_error_unused_decl", Text: "prc[a] : 1 = print hi; close self\nprc[b] : 1 -* 1 = close self\n"},
		{Name: "polarity_named_type_ok", Text: "type A = &{l : B}\ntype B = 1\nlet f(x : A) : B = x.l<+self>\nprc[a] : 1 = print hi; close self\n"},
		{Name: "polarity_named_type_bad", Text: "type A = &{l : B}\ntype B = 1\nlet f(x : A) : B = x.l<-self>\nprc[a] : 1 = print hi; close self\n"},
		{Name: "alias_cycle", Text: "type A = B\ntype B = A\nlet f(b : A) : A = fwd self b\nprc[a] : 1 = print hi; close self\n"},
		{Name: "dup_function", Text: "let f() : 1 = close self\nlet f() : 1 = close self\nprc[a] : 1 = print hi; close self\n"},
		{Name: "only_declarations_illtyped", Text: "type A = 1\nlet f(x : A) : A = close self\n"},
		{Name: "left_recursive_type", Text: "type tree = +{leaf : 1, node : tree * tree}\nprc[a] : 1 = print hi; close self\n"},
		{Name: "illegal_char_between", Text: "type A = 1\nprc[a] : A = print one; close self\n?\nprc[b] : 1 = print two; close self\n"},
		{Name: "tail_call_leftover", Text: "let f() : 1 = close self\nlet g(x : 1) : 1 = f()\nprc[a] : 1 = y <- new f(); z <- new g(y); wait z; print hi; close self\n"},
		{Name: "silent", Text: "prc[a] : 1 = close self\n"},
		{Name: "printing", Text: "let one() : 1 = print one; close self\nprc[a] : 1 = x <- new one(); wait x; print fin; close self\n"},
		{Name: "missing_file", Miss: true},
	}
	for _, p := range Corpus(c) {
		if strings.HasPrefix(p.Name, "corpus/") && (strings.Contains(p.Name, "split_pos") || strings.Contains(p.Name, "drop_neg.") || strings.Contains(p.Name, "exec") || c.Thorough()) {
			fs = append(fs, cliFile{Name: strings.TrimSuffix(filepath.Base(p.Name), ".grits"), Text: p.Text})
		}
	}
	return fs
}

type flagVec struct {
	args []string
	tcOn bool
	exOn bool
	sem  string
}

func c18Flags() []flagVec {
	var out []flagVec
	tcs := [][]string{{}, {"--typecheck"}, {"--notypecheck"}, {"--typecheck=false"}}
	exs := [][]string{{}, {"--execute"}, {"--noexecute"}, {"--execute=false"}}
	sems := [][]string{{}, {"--sync"}, {"--async"}, {"--sync", "--async"}, {"--async=false"}}
	for ti, tc := range tcs {
		for ei, ex := range exs {
			for si, sem := range sems {
				for v := 1; v <= 3; v++ {
					a := append(append(append([]string{}, tc...), ex...), sem...)
					a = append(a, "--verbosity", fmt.Sprint(v))
					out = append(out, flagVec{args: a, tcOn: ti < 2, exOn: ei < 2, sem: strings.Join(sems[si], " ")})
				}
			}
		}
	}
	return out
}

const c18Chunk = 24

func init() {
	harness.Register(&harness.Check{
		ID: "C18", Level: "exploration",
		Rule:        "the real grits binary (built from the working tree) x file classes (syntax error, empty, illegal character, NUL byte, unterminated comment, comment quirk, three kinds of type error, named-type polarity, alias cycle, duplicate function, declarations only, silent, printing, missing file, corpus programs with split/drop/exec) x the full flag product {none,--typecheck,--notypecheck,--typecheck=false} x {none,--execute,--noexecute,--execute=false} x {none,--sync,--async,--sync --async,--async=false} x --verbosity {1,2,3} = 240 vectors per file; oracle: exit status 0 iff the library parser accepts and (typechecking is off or the library typechecker accepts); no '> ' line when the status is non-zero or execution is off; exactly one diagnostic line on stderr when the status is non-zero; never a Go panic trace; distinct_nontrivial = (file, flag vector) pairs executed",
		Assumptions: []string{"the expected verdict of each file comes from the reference grammar R-gram and, where definite, the reference typechecker R-tc (lenient for K1); only otherwise from the in-process library", "a 60 s watchdog per run classifies a hang as inconclusive"},
		Cases: func(c *harness.Ctx) int { return len(c18Files(c)) * ((len(c18Flags()) + c18Chunk - 1) / c18Chunk) },
		Run: func(c *harness.Ctx, idx int, r *harness.Rec) {
			bin := c.Extra["gritsbin"]
			if bin == "" {
				r.Note("no grits binary (BUILD-ERROR)")
				r.Add("capped", 1)
				return
			}
			files := c18Files(c)
			flags := c18Flags()
			nch := (len(flags) + c18Chunk - 1) / c18Chunk
			f := files[idx/nch]
			lo := (idx % nch) * c18Chunk
			hi := lo + c18Chunk
			if hi > len(flags) {
				hi = len(flags)
			}
			path := filepath.Join(c.Scratch, fmt.Sprintf("c18_%d_%s.grits", idx, f.Name))
			parseOK, tcOK := false, false
			if !f.Miss {
				os.WriteFile(path, []byte(f.Text), 0644)
				defer os.Remove(path)
				pr := ParseText(f.Text)
				parseOK = pr.Accepted
				diverges := ""
				if pr.FuelOut || len(pr.Panics) > 0 || pr.Blocked {
					diverges = fmt.Sprintf("the parser crashes, blocks or diverges on this file (panics=%v, blocked=%v, fuel exhausted=%v)", pr.Panics, pr.Blocked, pr.FuelOut)
				}
				if parseOK {
					tr := TypecheckText(f.Text, nil, nil)
					tcOK = tr.Accepted()
					if tr.FuelOut || len(tr.Panics) > 0 || tr.Blocked {
						diverges = fmt.Sprintf("the typechecker crashes, blocks or diverges on this file (panics=%v, blocked=%v, fuel exhausted=%v)", tr.Panics, tr.Blocked, tr.FuelOut)
					}
				}
				if diverges != "" && idx%nch == 0 {
					// deterministic (fuel based) counterpart of the wall-clock watchdog below: the command cannot
					// gate-keep a file on which the library itself does not produce a verdict
					r.Violation(harness.Violation{Key: "library gives no verdict: " + f.Name, Desc: f.Name + ": " + diverges, Replay: map[string]interface{}{"kind": "cli", "file": f.Name, "text": f.Text}})
				}
				if diverges != "" {
					r.Note("file skipped in the flag matrix: the library diverges on it (reported)")
					return
				}
				// independent classification where the reference models are definite: the reference grammar
				// decides the parse verdict, the reference typechecker the typing verdict
				toks, lexOK := ref.Tokenize(f.Text)
				refParse := lexOK && ref.Recognize(toks)
				if !refParse {
					parseOK = false
				}
				if refParse {
					if rp, err := ref.ParseProgram(f.Text); err == nil {
						if v, _ := ref.CheckProgram(rp, true); v.Kind == "accept" {
							tcOK = true
						} else if v.Kind == "reject" {
							tcOK = false
						}
					}
				}
			}
			for _, fv := range flags[lo:hi] {
				args := append(append([]string{}, fv.args...), path)
				cmd := exec.Command(bin, args...)
				var so, se bytes.Buffer
				cmd.Stdout, cmd.Stderr = &so, &se
				cmd.Start()
				done := make(chan error, 1)
				go func() { done <- cmd.Wait() }()
				var err error
				select {
				case err = <-done:
				case <-time.After(60 * time.Second):
					cmd.Process.Kill()
					<-done
					r.Add("capped", 1)
					r.Note("inconclusive: run exceeded the 60 s safety net (" + f.Name + ")")
					continue
				}
				r.Add("evaluations", 1)
				r.Add("distinct_nontrivial", 1)
				status := 0
				if err != nil {
					status = 1
					if ee, ok := err.(*exec.ExitError); ok {
						status = ee.ExitCode()
					}
				}
				expectZero := !f.Miss && parseOK && (!fv.tcOn || tcOK)
				hasPrint := false
				for _, l := range strings.Split(so.String(), "\n") {
					if strings.HasPrefix(l, "> ") {
						hasPrint = true
					}
				}
				all := so.String() + se.String()
				trace := strings.Contains(all, "goroutine ") && strings.Contains(all, "[running]") || strings.Contains(all, "panic:") || strings.Contains(all, "fatal error:")
				// K2: with typechecking switched off nothing protects the interpreter, and every runtime
				// error (ill-typed program, or missing polarity information for forwards) is a Go panic
				k2 := !fv.tcOn && parseOK && fv.exOn && trace
				rp := map[string]interface{}{"kind": "cli", "file": f.Name, "text": f.Text, "args": fv.args, "status": status, "stdout": clip(so.String()), "stderr": clip(se.String())}
				report := func(key, desc string) {
					if k2 {
						key = "notypecheck-runtime-error-is-a-panic"
					}
					r.Violation(harness.Violation{Key: key, Desc: fmt.Sprintf("%s %v: %s (status %d)", f.Name, fv.args, desc, status), Replay: rp})
				}
				switch {
				case trace:
					report("Go panic trace: "+f.Name, "the process died with a Go panic trace")
				case expectZero && status != 0:
					report("non-zero exit although parsing/typechecking succeed: "+f.Name, "expected status 0")
				case !expectZero && status == 0:
					report("zero exit although parsing or typechecking fails: "+f.Name, "expected a non-zero status")
				}
				if hasPrint && (status != 0 || !fv.exOn) && !trace {
					report("program output although nothing may run: "+f.Name, "a '> label' line was printed")
				}
				if status != 0 && !trace {
					n := 0
					for _, l := range strings.Split(se.String(), "\n") {
						if strings.TrimSpace(l) != "" {
							n++
						}
					}
					if n != 1 {
						report(fmt.Sprintf("diagnostic lines on stderr != 1: %s", f.Name), fmt.Sprintf("%d diagnostic lines on stderr", n))
					}
				}
				if len(fv.args) == 2 {
					r.Sample(map[string]interface{}{"file": f.Name, "args": fv.args, "status": status, "printed": hasPrint})
				}
			}
		},
	})
}

func clip(s string) string {
	if len(s) > 1500 {
		return s[:1500] + "..."
	}
	return s
}
