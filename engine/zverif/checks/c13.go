package checks

import (
	"bytes"
	"fmt"
	"os"
	"os/exec"
	"path/filepath"
	"regexp"
	"strconv"
	"strings"
	"time"

	"grits/zverif/explore"
	"grits/zverif/harness"
)

var raceFn = regexp.MustCompile(`(?m)^  (grits/\S+)\(\)\s*$`)

func init() {
	harness.Register(&harness.Check{
		ID: "C13", Level: "exploration",
		Rule:        "every accepted closed driver/example program x 3 execution modes x monitor off/on x GOMAXPROCS in {1,4,16}, each run R times (R=2 quick, R=8 thorough) through the same API sequence a driver uses (InitializeProcesses, ProcessCount, DeadProcessCount, TimeTaken, StopMonitor) in an UNINSTRUMENTED build compiled with -race, free-running (not under the cooperative scheduler, whose hand-offs would hide races); oracle: the Go race detector reports nothing; additionally every program together with its successor in the corpus, both parsed, typechecked and executed at the same time by two drivers in one process (what the web server does with two requests; configuration rotating over the 6, GOMAXPROCS in {4,16}); schedules are NOT enumerated here (see assumptions); distinct_nontrivial = (program, mode, monitor, GOMAXPROCS) combinations that ran to completion",
		Assumptions: []string{"the race detector's happens-before analysis generalises one run to all schedules with the same synchronisation order; C03 establishes by exploration that this order is schedule independent for these programs; this is an argument, not a proof, hence level exploration", "separate free-running pass as prescribed for cooperative-scheduler model checking"},
		Cases: func(c *harness.Ctx) int { return len(Corpus(c))*len(explore.AllConfigs) + len(Corpus(c)) },
		Run: func(c *harness.Ctx, idx int, r *harness.Rec) {
			bin := c.Extra["racebin"]
			if bin == "" {
				r.Note("no race binary (BUILD-ERROR)")
				r.Add("capped", 1)
				return
			}
			progs := Corpus(c)
			if idx >= len(progs)*len(explore.AllConfigs) {
				c13Concurrent(c, bin, idx-len(progs)*len(explore.AllConfigs), r)
				return
			}
			p := progs[idx/len(explore.AllConfigs)]
			cfg := explore.AllConfigs[idx%len(explore.AllConfigs)]
			if len(p.Text) > 2500 && !c.Thorough() {
				r.Note("large example skipped in the quick tier")
				return
			}
			f := filepath.Join(c.Scratch, fmt.Sprintf("c13_%d.grits", idx))
			os.WriteFile(f, []byte(p.Text), 0644)
			defer os.Remove(f)
			rep := 2
			if c.Thorough() {
				rep = 8
			}
			for _, gmp := range []int{1, 4, 16} {
				cmd := exec.Command(bin, "-mode", strconv.Itoa(cfg.Mode), "-monitor="+strconv.FormatBool(cfg.Monitor), "-procs", strconv.Itoa(gmp), "-repeat", strconv.Itoa(rep), f)
				cmd.Env = append(os.Environ(), "GORACE=halt_on_error=1 exitcode=66")
				var out, errb bytes.Buffer
				cmd.Stdout, cmd.Stderr = &out, &errb
				done := make(chan error, 1)
				cmd.Start()
				go func() { done <- cmd.Wait() }()
				var err error
				select {
				case err = <-done:
				case <-time.After(120 * time.Second):
					cmd.Process.Kill()
					<-done
					r.Add("capped", 1)
					r.Note("inconclusive: run exceeded the 120 s safety net")
					continue
				}
				r.Add("evaluations", int64(rep))
				so := out.String()
				if strings.Contains(so, "NOT-ACCEPTED") {
					r.Note("skipped: not accepted")
					return
				}
				if strings.Contains(errb.String(), "WARNING: DATA RACE") {
					fns := raceFn.FindAllStringSubmatch(errb.String(), 4)
					var key []string
					for _, m := range fns {
						key = append(key, m[1])
					}
					k := "data race: " + strings.Join(key, " / ")
					rep := errb.String()
					if len(rep) > 3000 {
						rep = rep[:3000]
					}
					r.Violation(harness.Violation{Key: k, Desc: fmt.Sprintf("%s [%s, GOMAXPROCS=%d]: %s", p.Name, cfg, gmp, k),
						Replay: map[string]interface{}{"kind": "race", "program_name": p.Name, "program": p.Text, "mode": cfg.Mode, "monitor": cfg.Monitor, "gomaxprocs": gmp, "report": rep}})
					continue
				}
				if err != nil || !strings.Contains(so, "DONE") {
					// crashes are C01's subject; note only
					r.Note("run did not complete (exit error; see C01)")
					continue
				}
				r.Add("distinct_nontrivial", 1)
				if gmp == 4 {
					r.Sample(map[string]interface{}{"program": p.Name, "config": cfg.String(), "gomaxprocs": gmp, "runs": rep})
				}
			}
		},
	})
}

// c13Concurrent: program j and its successor in the corpus, each driven by its own goroutine in one
// process (parse, typecheck, execute, the API calls after completion), as two web requests would be.
func c13Concurrent(c *harness.Ctx, bin string, j int, r *harness.Rec) {
	progs := Corpus(c)
	p, q := progs[j], progs[(j+1)%len(progs)]
	cfg := explore.AllConfigs[j%len(explore.AllConfigs)]
	if (len(p.Text) > 2500 || len(q.Text) > 2500) && !c.Thorough() {
		r.Note("large example skipped in the quick tier")
		return
	}
	f1 := filepath.Join(c.Scratch, fmt.Sprintf("c13_pair_%d_a.grits", j))
	f2 := filepath.Join(c.Scratch, fmt.Sprintf("c13_pair_%d_b.grits", j))
	os.WriteFile(f1, []byte(p.Text), 0644)
	os.WriteFile(f2, []byte(q.Text), 0644)
	defer os.Remove(f1)
	defer os.Remove(f2)
	rep := 3
	if c.Thorough() {
		rep = 10
	}
	for _, gmp := range []int{4, 16} {
		cmd := exec.Command(bin, "-mode", strconv.Itoa(cfg.Mode), "-monitor="+strconv.FormatBool(cfg.Monitor), "-procs", strconv.Itoa(gmp), "-repeat", strconv.Itoa(rep), "-with", f2, f1)
		cmd.Env = append(os.Environ(), "GORACE=halt_on_error=1 exitcode=66")
		var out, errb bytes.Buffer
		cmd.Stdout, cmd.Stderr = &out, &errb
		done := make(chan error, 1)
		cmd.Start()
		go func() { done <- cmd.Wait() }()
		var err error
		select {
		case err = <-done:
		case <-time.After(120 * time.Second):
			cmd.Process.Kill()
			<-done
			r.Add("capped", 1)
			r.Note("inconclusive: run exceeded the 120 s safety net")
			continue
		}
		r.Add("evaluations", int64(2*rep))
		so := out.String()
		if strings.Contains(so, "NOT-ACCEPTED") {
			r.Note("skipped: not accepted")
			return
		}
		if strings.Contains(errb.String(), "WARNING: DATA RACE") {
			fns := raceFn.FindAllStringSubmatch(errb.String(), 4)
			var key []string
			for _, m := range fns {
				key = append(key, m[1])
			}
			k := "data race (two drivers in one process): " + strings.Join(key, " / ")
			rp := errb.String()
			if len(rp) > 3000 {
				rp = rp[:3000]
			}
			r.Violation(harness.Violation{Key: k, Desc: fmt.Sprintf("%s together with %s [%s, GOMAXPROCS=%d]: %s", p.Name, q.Name, cfg, gmp, k),
				Replay: map[string]interface{}{"kind": "race", "program_name": p.Name, "program": p.Text, "second_program_name": q.Name, "second_program": q.Text, "mode": cfg.Mode, "monitor": cfg.Monitor, "gomaxprocs": gmp, "report": rp}})
			continue
		}
		if err != nil || !strings.Contains(so, "DONE") {
			r.Note("run did not complete (exit error; see C01)")
			continue
		}
		r.Add("distinct_nontrivial", 1)
		r.Add("concurrent_pairs_completed", 1)
	}
}
