package checks

import (
	"bytes"
	"fmt"
	"os"
	"os/exec"
	"path/filepath"
	"regexp"
	"strconv"
	"strings"
	"time"

	"grits/zverif/explore"
	"grits/zverif/harness"
)

var raceFn = regexp.MustCompile(`(?m)^  (grits/\S+)\(\)\s*$`)

func init() {
	harness.Register(&harness.Check{
		ID: "C13", Level: "exploration",
		Rule:        "every accepted closed driver/example program x 3 execution modes x monitor off/on x GOMAXPROCS in {1,4,16}, each run R times (R=2 quick, R=8 thorough) through the same API sequence a driver uses (InitializeProcesses, ProcessCount, DeadProcessCount, TimeTaken, StopMonitor) in an UNINSTRUMENTED build compiled with -race, free-running (not under the cooperative scheduler, whose hand-offs would hide races); oracle: the Go race detector reports nothing; schedules are NOT enumerated here (see assumptions); distinct_nontrivial = (program, mode, monitor, GOMAXPROCS) combinations that ran to completion",
		Assumptions: []string{"the race detector's happens-before analysis generalises one run to all schedules with the same synchronisation order; C03 establishes by exploration that this order is schedule independent for these programs; this is an argument, not a proof, hence level exploration", "separate free-running pass as prescribed for cooperative-scheduler model checking"},
		Cases: func(c *harness.Ctx) int { return len(Corpus(c)) * len(explore.AllConfigs) },
		Run: func(c *harness.Ctx, idx int, r *harness.Rec) {
			bin := c.Extra["racebin"]
			if bin == "" {
				r.Note("no race binary (BUILD-ERROR)")
				r.Add("capped", 1)
				return
			}
			progs := Corpus(c)
			p := progs[idx/len(explore.AllConfigs)]
			cfg := explore.AllConfigs[idx%len(explore.AllConfigs)]
			if len(p.Text) > 2500 && !c.Thorough() {
				r.Note("large example skipped in the quick tier")
				return
			}
			f := filepath.Join(c.Scratch, fmt.Sprintf("c13_%d.grits", idx))
			os.WriteFile(f, []byte(p.Text), 0644)
			defer os.Remove(f)
			rep := 2
			if c.Thorough() {
				rep = 8
			}
			for _, gmp := range []int{1, 4, 16} {
				cmd := exec.Command(bin, "-mode", strconv.Itoa(cfg.Mode), "-monitor="+strconv.FormatBool(cfg.Monitor), "-procs", strconv.Itoa(gmp), "-repeat", strconv.Itoa(rep), f)
				cmd.Env = append(os.Environ(), "GORACE=halt_on_error=1 exitcode=66")
				var out, errb bytes.Buffer
				cmd.Stdout, cmd.Stderr = &out, &errb
				done := make(chan error, 1)
				cmd.Start()
				go func() { done <- cmd.Wait() }()
				var err error
				select {
				case err = <-done:
				case <-time.After(120 * time.Second):
					cmd.Process.Kill()
					<-done
					r.Add("capped", 1)
					r.Note("inconclusive: run exceeded the 120 s safety net")
					continue
				}
				r.Add("evaluations", int64(rep))
				so := out.String()
				if strings.Contains(so, "NOT-ACCEPTED") {
					r.Note("skipped: not accepted")
					return
				}
				if strings.Contains(errb.String(), "WARNING: DATA RACE") {
					fns := raceFn.FindAllStringSubmatch(errb.String(), 4)
					var key []string
					for _, m := range fns {
						key = append(key, m[1])
					}
					k := "data race: " + strings.Join(key, " / ")
					rep := errb.String()
					if len(rep) > 3000 {
						rep = rep[:3000]
					}
					r.Violation(harness.Violation{Key: k, Desc: fmt.Sprintf("%s [%s, GOMAXPROCS=%d]: %s", p.Name, cfg, gmp, k),
						Replay: map[string]interface{}{"kind": "race", "program_name": p.Name, "program": p.Text, "mode": cfg.Mode, "monitor": cfg.Monitor, "gomaxprocs": gmp, "report": rep}})
					continue
				}
				if err != nil || !strings.Contains(so, "DONE") {
					// crashes are C01's subject; note only
					r.Note("run did not complete (exit error; see C01)")
					continue
				}
				r.Add("distinct_nontrivial", 1)
				if gmp == 4 {
					r.Sample(map[string]interface{}{"program": p.Name, "config": cfg.String(), "gomaxprocs": gmp, "runs": rep})
				}
			}
		},
	})
}
