package checks

import (
	"fmt"
	"strings"

	"grits/types"
	"grits/zverif/gen"
	"grits/zverif/harness"
	"grits/zverif/ref"
	"grits/zverif/vfuel"
)

const envChunk = 400

type envSpaces struct {
	spaces []gen.EnvSpace
	total  int
}

func (s *envSpaces) at(i int) *ref.Env {
	for _, sp := range s.spaces {
		if i < sp.Count() {
			return sp.At(i)
		}
		i -= sp.Count()
	}
	return nil
}

func mkSpaces(sp ...gen.EnvSpace) *envSpaces {
	s := &envSpaces{spaces: sp}
	for _, x := range sp {
		s.total += x.Count()
	}
	return s
}

var spaceCache = map[string]*envSpaces{}

// wfSpace: environments for C10/C16 (well-formed and ill-formed ones).
func wfSpace(c *harness.Ctx) *envSpaces {
	k := "wf" + c.Tier
	if s, ok := spaceCache[k]; ok {
		return s
	}
	o := gen.TypeOpts{Names: []string{"A", "B"}, Labels: []string{"l", "r"}, Shifts: gen.RepresentativeShifts, DupLabels: true}
	pool1 := gen.Types(1, o)
	anns := gen.Annotations(true)
	b1 := gen.Annotated(pool1, anns)
	var s *envSpaces
	if !c.Thorough() {
		// two definitions A, B over all depth-1 bodies; one definition with depth-2 bodies; duplicate names; undefined C
		o2 := o
		o2.Names = []string{"A"}
		o2.Shifts = gen.RepresentativeShifts[:4]
		o2.DupLabels = true
		b2 := gen.Annotated(gen.Types(2, o2), anns[:2])
		s = mkSpaces(
			gen.EnvSpace{Names: []string{"A", "B"}, Bodies: b1, N: 2},
			gen.EnvSpace{Names: []string{"A"}, Bodies: b2, N: 1},
			gen.EnvSpace{Names: []string{"A", "A"}, Bodies: gen.Annotated(gen.Types(0, o), anns[:2]), N: 2},
			// alias and recursion graphs over three names (every function {A,B,C} -> small bodies)
			gen.EnvSpace{Names: []string{"A", "B", "C"}, Bodies: aliasBodies(), N: 3},
			modeGraph4(),
			// every one of the 32 shift forms under every annotation
			gen.EnvSpace{Names: []string{"A"}, Bodies: gen.Annotated(gen.Types(1, gen.TypeOpts{Shifts: gen.AllShifts()}), anns), N: 1},
		)
	} else {
		o3 := gen.TypeOpts{Names: []string{"A", "B", "C"}, Labels: []string{"l", "r"}, Shifts: gen.RepresentativeShifts[:6]}
		p3 := gen.Types(1, gen.TypeOpts{Names: o3.Names, Labels: []string{"l"}, Shifts: o3.Shifts[:3], NoBinary: false})
		var small []*ref.Ty
		for _, t := range p3 {
			if len(t.String()) <= 14 {
				small = append(small, t)
			}
		}
		b3 := gen.Annotated(small, anns[:3])
		oAll := o
		oAll.Shifts = gen.AllShifts()
		bAll := gen.Annotated(gen.Types(1, oAll), anns)
		o2 := o
		o2.Names = []string{"A"}
		b2 := gen.Annotated(gen.Types(2, o2), anns)
		s = mkSpaces(
			gen.EnvSpace{Names: []string{"A", "B"}, Bodies: bAll, N: 2},
			gen.EnvSpace{Names: []string{"A", "B", "C"}, Bodies: b3, N: 3},
			gen.EnvSpace{Names: []string{"A"}, Bodies: b2, N: 1},
			gen.EnvSpace{Names: []string{"A", "A"}, Bodies: gen.Annotated(gen.Types(0, o), anns[:2]), N: 2},
			gen.EnvSpace{Names: []string{"A", "B", "C"}, Bodies: aliasBodies(), N: 3},
			modeGraph4(),
		)
	}
	spaceCache[k] = s
	return s
}

// aliasBodies: bodies for the three-name alias/recursion/mode graphs.
func aliasBodies() []ref.AnnTy {
	var out []ref.AnnTy
	add := func(t *ref.Ty) { out = append(out, ref.AnnTy{T: t}) }
	add(ref.Unit())
	out = append(out, ref.AnnTy{Ann: ref.MLin, T: ref.Unit()}, ref.AnnTy{Ann: ref.MAff, T: ref.Unit()})
	names := []string{"A", "B", "C"}
	for _, n := range names {
		add(ref.Name(n))
	}
	for _, n := range names {
		add(ref.Plus(ref.Branch{Label: "l", T: ref.Name(n)}))
	}
	for _, n := range names {
		add(ref.Plus(ref.Branch{Label: "l", T: ref.Plus(ref.Branch{Label: "l", T: ref.Name(n)})}))
	}
	for _, n := range names {
		for _, m := range names {
			add(ref.Tensor(ref.Name(n), ref.Name(m)))
		}
	}
	return out
}

// modeGraph4: four definitions A, B, C, D where A, B, C range over lin 1, +{l:X}, +{l:X, r:Y} (X, Y among
// A, B, C) and D is an alias of one of them: mode propagation through mutually recursive definitions
// with a later reference (all declaration orders are tried by C16).
func modeGraph4() gen.EnvSpace {
	names := []string{"A", "B", "C"}
	var first []ref.AnnTy
	first = append(first, ref.AnnTy{Ann: ref.MLin, T: ref.Unit()})
	for _, n := range names {
		first = append(first, ref.AnnTy{T: ref.Plus(ref.Branch{Label: "l", T: ref.Name(n)})})
	}
	for _, n := range names {
		for _, m := range names {
			first = append(first, ref.AnnTy{T: ref.Plus(ref.Branch{Label: "l", T: ref.Name(n)}, ref.Branch{Label: "r", T: ref.Name(m)})})
		}
	}
	var last []ref.AnnTy
	for _, n := range names {
		last = append(last, ref.AnnTy{T: ref.Name(n)})
		last = append(last, ref.AnnTy{T: ref.Tensor(ref.Unit(), ref.Name(n))})
	}
	return gen.EnvSpace{Names: []string{"A", "B", "C", "D"}, BodiesAt: [][]ref.AnnTy{first, first, first, last}, N: 4}
}

func chunks(n int) int { return (n + envChunk - 1) / envChunk }

// envProgram renders the definitions plus one identity function per distinct defined name,
// so that every definition is also used in a signature.
func envProgram(e *ref.Env) string {
	var b strings.Builder
	b.WriteString(e.String())
	seen := map[string]bool{}
	for _, d := range e.Defs {
		if seen[d.Name] {
			continue
		}
		seen[d.Name] = true
		fmt.Fprintf(&b, "let u%s(x : %s) : %s = fwd self x\n", d.Name, d.Name, d.Name)
	}
	return b.String()
}

func init() {
	// ---------------- C10 ----------------
	harness.Register(&harness.Check{
		ID: "C10", Level: "exploration",
		Rule:        "all environments of <= 2 (quick) / <= 3 (thorough) type definitions over names A,B(,C) (plus, in both tiers, all 9261 alias/recursion/mode graphs over three names with bodies 1, lin 1, aff 1, X, +{l:X}, +{l:+{l:X}}, X * Y 13182 mode-propagation graphs over four names - three definitions from lin 1, +{l:X}, +{l:X,r:Y} plus a later alias or 1 * X - and all 32 shift forms under every annotation) with bodies = every type of depth <= 1 (depth <= 2 for single definitions) over 1, *, -*, +{l},+{l,r},&{..}, legal and illegal shifts, duplicated labels, each with every head annotation (none, 4 modes, an unknown mode), plus duplicated definitions; each is turned into a program (definitions + one identity function per name) and also used as annotation type of a parameter/result, of an assumed name + process, and of a typed cut, alone and next to (before / after) a declaration annotated with each well-formed sibling (same structure, other head mode); verdict of the real typechecker must equal the independent well-formedness checker R-wf; distinct_nontrivial counts distinct program texts with at least one type constructor",
		Assumptions: []string{"R-wf (ref/types.go) is the reading of 'well-formed' used: single definition, defined names, distinct labels, no cycle of bare-name definitions, known modes, modes uniform up to shifts, legal shifts, directional mode inference (DESIGN 4.6)"},
		Cases:       func(c *harness.Ctx) int { return chunks(wfSpace(c).total) + len(annEnvs())*len(annPool(c)) },
		Run: func(c *harness.Ctx, idx int, r *harness.Rec) {
			sp := wfSpace(c)
			if idx >= chunks(sp.total) {
				j := idx - chunks(sp.total)
				checkC10Annotation(annEnvs()[j%len(annEnvs())], annPool(c)[j/len(annEnvs())], r)
				return
			}
			for i := idx * envChunk; i < (idx+1)*envChunk && i < sp.total; i++ {
				e := sp.at(i)
				checkC10Env(e, r)
			}
		},
	})
	// ---------------- C08 ----------------
	harness.Register(&harness.Check{
		ID: "C08", Level: "exploration",
		Rule:        "all well-formed contractive environments (R-wf filter) of the C10 environment space; for each, all ordered pairs (S,T) and all triples from the candidate set {defined names, their bodies, bodies with one name unrolled, bodies with branches swapped, immediate subterms of bodies, 1, lin 1}; the real types.EqualType (fuel-instrumented) must return and agree with the reference greatest-fixpoint bisimulation R-eq; reflexivity, symmetry and transitivity are evaluated on the real answers over all pairs/triples; distinct_nontrivial = distinct (environment, S, T) with S != T textually",
		Assumptions: []string{"R-eq compares modes of every node, shift mode pairs, and choice branches as label-indexed maps"},
		Cases:       func(c *harness.Ctx) int { return chunks(wfSpace(c).total) },
		Run: func(c *harness.Ctx, idx int, r *harness.Rec) {
			sp := wfSpace(c)
			for i := idx * envChunk; i < (idx+1)*envChunk && i < sp.total; i++ {
				e := sp.at(i)
				if e.WellFormed() != "" {
					continue
				}
				checkC08Env(e, r)
			}
		},
	})
	// ---------------- C16 ----------------
	harness.Register(&harness.Check{
		ID: "C16", Level: "exploration",
		Rule:        "all environments of the C10 space that the real typechecker accepts (as a program with one identity function per name): after Typecheck every type node of every definition and signature must carry one of the four modes, equal to the reference inference R-infer; verdict and modes must be invariant under all permutations of the declarations and under writing the inferred head annotation explicitly; distinct_nontrivial = accepted environments with at least one unannotated definition",
		Assumptions: []string{"R-infer: annotation, else mode fixed by a shift or named type in the head region, else replicable; continuation of a shift takes the shift's source mode"},
		Cases:       func(c *harness.Ctx) int { return chunks(wfSpace(c).total) },
		Run: func(c *harness.Ctx, idx int, r *harness.Rec) {
			sp := wfSpace(c)
			for i := idx * envChunk; i < (idx+1)*envChunk && i < sp.total; i++ {
				checkC16Env(sp.at(i), r)
			}
		},
	})
}

func viol(r *harness.Rec, key, desc, text string, extra map[string]interface{}) {
	rp := map[string]interface{}{"kind": "typecheck", "program": text}
	for k, v := range extra {
		rp[k] = v
	}
	r.Violation(harness.Violation{Key: key, Desc: desc + "  ||  input: " + strings.ReplaceAll(strings.TrimSpace(text), "\n", " ; "), Replay: rp})
}

func wfClass(err ref.WFError) string {
	s := string(err)
	for _, k := range []string{"defined more than once", "undefined type name", "duplicate label", "not contractive", "unknown mode", "conflicting modes", "is used at mode", "shift to mode", "illegal upshift", "illegal downshift"} {
		if strings.Contains(s, k) {
			return k
		}
	}
	return s
}

func checkC10Env(e *ref.Env, r *harness.Rec) {
	text := envProgram(e)
	wf := e.WellFormed()
	res := TypecheckText(text, nil, func(t *TCResult) {
		// Unfold of every accepted name must terminate with a structural type
		lenv := types.ProduceLabelledSessionTypeEnvironment(*t.Env.Types)
		for _, d := range *t.Env.Types {
			u := types.Unfold(types.NewLabelType(d.Name, d.Modality), lenv)
			if u == nil {
				viol(r, "unfold-nil", "Unfold("+d.Name+") is nil in an accepted program", text, nil)
			} else if _, isLabel := u.(*types.LabelType); isLabel {
				viol(r, "unfold-name", "Unfold("+d.Name+") is still a name in an accepted program", text, nil)
			}
		}
	})
	r.Add("evaluations", 1)
	if len(e.Defs) > 0 && strings.ContainsAny(text[:strings.Index(text, "let")], "*+&/\\") {
		r.Add("distinct_nontrivial", 1)
	}
	if res.ParseErr != "" {
		viol(r, "generated text does not parse", res.ParseErr, text, nil)
		return
	}
	if len(res.Panics) > 0 || res.Blocked {
		viol(r, "crash: "+NormMsg(strings.Join(res.Panics, ";")), "typechecker crashed or gave no answer: "+strings.Join(res.Panics, "; "), text, nil)
		return
	}
	accepted := res.TypeErr == ""
	if accepted && wf != "" {
		if envWithoutAnnBeforeShift(e).WellFormed() == "" {
			viol(r, "annotation-before-shift-ignored", "accepted although the head annotation contradicts (or is not a mode and precedes) a shift: "+string(wf), text, nil)
		} else {
			viol(r, "ill-formed accepted: "+wfClass(wf), "accepted although ill-formed: "+string(wf), text, nil)
		}
	} else if !accepted && wf == "" {
		viol(r, "well-formed rejected: "+NormMsg(stripNames(res.TypeErr)), "rejected although well-formed: "+res.TypeErr, text, nil)
	}
	if wf == "" {
		r.Add("wellformed_envs", 1)
		r.Sample(strings.ReplaceAll(strings.TrimSpace(e.String()), "\n", " ; "))
	} else {
		r.Add("illformed_envs", 1)
	}
}

var annPoolCache = map[string][]ref.AnnTy{}

// annPool: annotation types over the defined name A and the undefined name Z.
func annPool(c *harness.Ctx) []ref.AnnTy {
	if p, ok := annPoolCache[c.Tier]; ok {
		return p
	}
	o := gen.TypeOpts{Names: []string{"A", "Z"}, Labels: []string{"l", "r"}, Shifts: gen.RepresentativeShifts, DupLabels: true}
	depth := 1
	if c.Thorough() {
		o.Names = []string{"A"}
		o.Labels = []string{"l"}
		o.Shifts = gen.RepresentativeShifts[:6]
		depth = 2
	}
	p := gen.Annotated(gen.Types(depth, o), gen.Annotations(true))
	if c.Thorough() {
		o1 := gen.TypeOpts{Names: []string{"A", "Z"}, Labels: []string{"l", "r"}, Shifts: gen.AllShifts(), DupLabels: true}
		p = append(p, gen.Annotated(gen.Types(1, o1), gen.Annotations(true))...)
	}
	annPoolCache[c.Tier] = p
	return p
}

var annEnvCache []*ref.Env

func annEnvs() []*ref.Env {
	if annEnvCache != nil {
		return annEnvCache
	}
	mk := func(a ref.AnnTy) *ref.Env { return &ref.Env{Defs: []ref.TypeDef{{Name: "A", Body: a}}} }
	annEnvCache = []*ref.Env{
		mk(ref.AnnTy{T: ref.Unit()}),
		mk(ref.AnnTy{Ann: ref.MLin, T: ref.Unit()}),
		mk(ref.AnnTy{T: ref.Plus(ref.Branch{Label: "l", T: ref.Name("A")}, ref.Branch{Label: "r", T: ref.Unit()})}),
		mk(ref.AnnTy{Ann: ref.MAff, T: ref.With(ref.Branch{Label: "l", T: ref.Name("A")})}),
		mk(ref.AnnTy{T: ref.Up(ref.MLin, ref.MAff, ref.Unit())}),
		mk(ref.AnnTy{T: ref.Down(ref.MRep, ref.MMul, ref.Unit())}),
	}
	return annEnvCache
}

// annotationIgnoredClass: true if the input becomes well-formed once every head annotation that
// directly precedes a shift is removed (the known root cause F15).
func dropAnnBeforeShift(a ref.AnnTy) ref.AnnTy {
	if a.T.K == ref.KUp || a.T.K == ref.KDown {
		return ref.AnnTy{T: a.T.Copy()}
	}
	return ref.AnnTy{Ann: a.Ann, AnnStr: a.AnnStr, T: a.T.Copy()}
}

func envWithoutAnnBeforeShift(e *ref.Env) *ref.Env {
	out := &ref.Env{}
	for _, d := range e.Defs {
		out.Defs = append(out.Defs, ref.TypeDef{Name: d.Name, Body: dropAnnBeforeShift(d.Body)})
	}
	return out
}

// checkC10Annotation: one annotation type on parameter/result, assumed name + process, and typed cut.
func checkC10Annotation(e0 *ref.Env, a0 ref.AnnTy, r *harness.Rec) {
	e := &ref.Env{}
	for _, d := range e0.Defs {
		e.Defs = append(e.Defs, ref.TypeDef{Name: d.Name, Body: ref.AnnTy{Ann: d.Body.Ann, AnnStr: d.Body.AnnStr, T: d.Body.T.Copy()}})
	}
	if e.WellFormed() != "" {
		return
	}
	dm, _ := e.Elaborate()
	a := ref.AnnTy{Ann: a0.Ann, AnnStr: a0.AnnStr, T: a0.T.Copy()}
	werr := e.CheckType(a, dm)
	ts := a.String()
	for vi, text := range []string{
		e.String() + fmt.Sprintf("let g(x : %s) : %s = fwd self x\n", ts, ts),
		e.String() + fmt.Sprintf("assuming z : %s\nprc[p] : %s = fwd self z\n", ts, ts),
		e.String() + fmt.Sprintf("let h(x : %s) : %s = y : %s <- new fwd self x; fwd self y\n", ts, ts, ts),
		e.String() + fmt.Sprintf("let k(x : %s, y : 1) : 1 = drop x; wait y; close self\n", ts),
		e.String() + fmt.Sprintf("assuming z : %s, w : 1\nprc[p] : 1 = drop z; wait w; close self\n", ts),
		e.String() + fmt.Sprintf("let h2(x : %s) : %s = y : %s <- new fwd self x; fwd self y\n", a.T.String(), a.T.String(), ts),
	} {
		res := TypecheckText(text, nil, nil)
		r.Add("evaluations", 1)
		r.Add("distinct_nontrivial", 1)
		if res.ParseErr != "" {
			viol(r, "generated text does not parse", res.ParseErr, text, nil)
			continue
		}
		if len(res.Panics) > 0 || res.Blocked {
			viol(r, "crash: "+NormMsg(strings.Join(res.Panics, ";")), "typechecker crashed or gave no answer: "+strings.Join(res.Panics, "; "), text, nil)
			continue
		}
		pos := []string{"signature", "assumed name/process", "typed cut", "first parameter", "first assumed name", "cut annotation only"}[vi]
		if vi == 5 {
			// the signature uses the type without its head annotation; only the case "signature fine, cut
			// annotation ill-formed" is decided here
			plain := ref.AnnTy{T: a.T.Copy()}
			if werr == "" || e.CheckType(plain, dm) != "" {
				continue
			}
		}
		if vi >= 3 && werr == "" {
			// positions 3 and 4 drop x: only meaningful for the ill-formed direction (a well-formed linear type may not be dropped)
			continue
		}
		if res.TypeErr == "" && werr != "" {
			b := dropAnnBeforeShift(a)
			if (b.Ann != a.Ann || b.AnnStr != a.AnnStr) && e.CheckType(b, dm) == "" {
				viol(r, "annotation-before-shift-ignored", "accepted although the head annotation contradicts (or is not a mode and precedes) a shift: "+string(werr), text, nil)
			} else {
				viol(r, "ill-formed annotation accepted ("+pos+"): "+wfClass(werr), "accepted although the annotation type is ill-formed: "+string(werr), text, nil)
			}
		} else if res.TypeErr != "" && werr == "" {
			viol(r, "well-formed annotation rejected ("+pos+"): "+NormMsg(stripNames(res.TypeErr)), "rejected although well-formed: "+res.TypeErr, text, nil)
		}
	}
	// an annotation must be judged on its own: a declaration carrying a *sibling* of the annotation (same
	// structure, another or no head mode) placed before or after it must not change the verdict
	var sibs []ref.AnnTy
	for _, m := range []ref.Mode{ref.MUnset, ref.MRep, ref.MMul, ref.MAff, ref.MLin} {
		sb := ref.AnnTy{Ann: m, T: a0.T.Copy()}
		if sb.String() != ts && e.CheckType(sb, dm) == "" {
			sibs = append(sibs, sb)
		}
	}
	for _, sb := range sibs {
		ss := sb.String()
		for oi, text := range []string{
			e.String() + fmt.Sprintf("let g0(x : %s) : %s = fwd self x\nlet g(x : %s) : %s = fwd self x\n", ss, ss, ts, ts),
			e.String() + fmt.Sprintf("let g(x : %s) : %s = fwd self x\nlet g0(x : %s) : %s = fwd self x\n", ts, ts, ss, ss),
			e.String() + fmt.Sprintf("let g(x : %s, y : %s) : 1 = drop x; drop y; close self\n", ss, ts),
		} {
			if oi == 2 && (werr == "" || sb.Ann != ref.MRep) {
				continue // the two-parameter form drops both: decided only for a replicable sibling and an ill-formed annotation
			}
			res := TypecheckText(text, nil, nil)
			r.Add("evaluations", 1)
			if res.ParseErr != "" {
				viol(r, "generated text does not parse", res.ParseErr, text, nil)
				continue
			}
			if len(res.Panics) > 0 || res.Blocked {
				viol(r, "crash: "+NormMsg(strings.Join(res.Panics, ";")), "typechecker crashed or gave no answer: "+strings.Join(res.Panics, "; "), text, nil)
				continue
			}
			if res.TypeErr == "" && werr != "" {
				b := dropAnnBeforeShift(a)
				if (b.Ann != a.Ann || b.AnnStr != a.AnnStr) && e.CheckType(b, dm) == "" {
					viol(r, "annotation-before-shift-ignored", "accepted although the head annotation contradicts (or is not a mode and precedes) a shift: "+string(werr), text, nil)
				} else {
					viol(r, "ill-formed annotation accepted (next to a well-formed sibling): "+wfClass(werr), "accepted although the annotation type "+ts+" is ill-formed: "+string(werr), text, nil)
				}
			} else if res.TypeErr != "" && werr == "" {
				viol(r, "well-formed annotation rejected (next to a well-formed sibling): "+NormMsg(stripNames(res.TypeErr)), "rejected although both annotations are well-formed: "+res.TypeErr, text, nil)
			}
		}
	}
	if werr == "" {
		r.Sample("annotation type: " + ts + "  in  " + strings.TrimSpace(e.String()))
	}
}

func stripNames(s string) string {
	// error texts quote types and names; keep the words only
	var b strings.Builder
	inq := false
	for _, ch := range s {
		if ch == '\'' {
			inq = !inq
			continue
		}
		if !inq {
			b.WriteRune(ch)
		}
	}
	out := b.String()
	if i := strings.Index(out, ";"); i >= 0 && strings.HasPrefix(out, "(") {
		out = out[i+1:]
	}
	return strings.TrimSpace(out)
}

// ---------- C08 ----------

func swapBranches(t *ref.Ty) *ref.Ty {
	c := t.Copy()
	var walk func(x *ref.Ty)
	walk = func(x *ref.Ty) {
		if x == nil {
			return
		}
		if len(x.Br) == 2 {
			x.Br[0], x.Br[1] = x.Br[1], x.Br[0]
		}
		walk(x.L)
		walk(x.R)
		for _, b := range x.Br {
			walk(b.T)
		}
	}
	walk(c)
	return c
}

func unrollOnce(e *ref.Env, t *ref.Ty) *ref.Ty {
	c := t.Copy()
	done := false
	var walk func(x *ref.Ty) *ref.Ty
	walk = func(x *ref.Ty) *ref.Ty {
		if x == nil || done {
			return x
		}
		if x.K == ref.KName {
			if d := e.Lookup(x.Name); d != nil && d.Body.Ann == ref.MUnset {
				done = true
				return d.Body.T.Copy()
			}
			return x
		}
		x.L = walk(x.L)
		x.R = walk(x.R)
		for i := range x.Br {
			x.Br[i].T = walk(x.Br[i].T)
		}
		return x
	}
	if c.K == ref.KName {
		return c
	}
	return walk(c)
}

func checkC08Env(e *ref.Env, r *harness.Rec) {
	// candidate types, each given as an extra definition X<i> = <annotation of its source definition> <type>
	type cand struct {
		ann ref.AnnTy
	}
	var cands []ref.AnnTy
	seen := map[string]bool{}
	add := func(a ref.AnnTy) {
		k := a.String()
		if !seen[k] {
			seen[k] = true
			cands = append(cands, a)
		}
	}
	for _, d := range e.Defs {
		add(ref.AnnTy{T: ref.Name(d.Name)})
		hm := ref.AnnTy{Ann: d.Mode} // write the head mode explicitly so that the copy lives at the same mode
		add(ref.AnnTy{Ann: hm.Ann, T: d.Body.T.Copy()})
		add(ref.AnnTy{Ann: hm.Ann, T: swapBranches(d.Body.T)})
		add(ref.AnnTy{Ann: hm.Ann, T: unrollOnce(e, d.Body.T)})
		// immediate subterms of the same region (out-of-phase unfoldings of recursive definitions)
		if d.Body.T.K != ref.KUp && d.Body.T.K != ref.KDown {
			for _, sub := range []*ref.Ty{d.Body.T.L, d.Body.T.R} {
				if sub != nil && sub.K != ref.KName && sub.K != ref.KUnit {
					add(ref.AnnTy{Ann: hm.Ann, T: sub.Copy()})
				}
			}
			for _, b := range d.Body.T.Br {
				if b.T.K != ref.KName && b.T.K != ref.KUnit {
					add(ref.AnnTy{Ann: hm.Ann, T: b.T.Copy()})
				}
			}
		}
	}
	add(ref.AnnTy{T: ref.Unit()})
	add(ref.AnnTy{Ann: ref.MLin, T: ref.Unit()})
	ext := &ref.Env{Defs: append([]ref.TypeDef{}, e.Defs...)}
	var keep []ref.AnnTy
	for i, c := range cands {
		ext.Defs = append(ext.Defs, ref.TypeDef{Name: fmt.Sprintf("X%d", i), Body: c})
	}
	// keep only candidates that are themselves well-formed in the environment
	dm, _ := e.Elaborate()
	ext2 := &ref.Env{Defs: append([]ref.TypeDef{}, e.Defs...)}
	for _, c := range cands {
		cc := ref.AnnTy{Ann: c.Ann, AnnStr: c.AnnStr, T: c.T.Copy()}
		if e.CheckType(cc, dm) == "" {
			keep = append(keep, c)
			ext2.Defs = append(ext2.Defs, ref.TypeDef{Name: fmt.Sprintf("X%d", len(keep)-1), Body: c})
		}
	}
	if ext2.WellFormed() != "" {
		r.Note("candidate environment not well-formed (skipped)")
		return
	}
	text := ext2.String()
	n := len(keep)
	base := len(e.Defs)
	res := TypecheckText(text, nil, func(t *TCResult) {
		lenv := types.ProduceLabelledSessionTypeEnvironment(*t.Env.Types)
		real := make([]types.SessionType, n)
		for i := 0; i < n; i++ {
			real[i] = (*t.Env.Types)[base+i].SessionType
		}
		ans := make([][]bool, n)
		for i := 0; i < n; i++ {
			ans[i] = make([]bool, n)
			for j := 0; j < n; j++ {
				vfuel.Reset(300000)
				got, pan := safe(func() bool { return types.EqualType(real[i], real[j], lenv) })
				vfuel.Reset(tcFuel)
				r.Add("evaluations", 1)
				if keep[i].String() != keep[j].String() {
					r.Add("distinct_nontrivial", 1)
				}
				pairDesc := fmt.Sprintf("S = %s, T = %s", keep[i].String(), keep[j].String())
				if pan != "" {
					viol(r, "EqualType does not return: "+NormMsg(pan), "EqualType panics or exhausts its fuel ("+pan+") for "+pairDesc, text, map[string]interface{}{"S": keep[i].String(), "T": keep[j].String()})
					continue
				}
				ans[i][j] = got
				want := ext2.Equal(ext2.Defs[base+i].Body.T, ext2.Defs[base+j].Body.T)
				if got != want {
					k := "EqualType false for equal types"
					if got {
						k = "EqualType true for different types"
					}
					viol(r, k, fmt.Sprintf("EqualType = %v, reference bisimulation = %v for %s", got, want, pairDesc), text, map[string]interface{}{"S": keep[i].String(), "T": keep[j].String()})
				}
			}
		}
		for i := 0; i < n; i++ {
			if !ans[i][i] {
				viol(r, "not reflexive", "EqualType(S,S) = false for S = "+keep[i].String(), text, nil)
			}
			for j := 0; j < n; j++ {
				if ans[i][j] != ans[j][i] {
					viol(r, "not symmetric", fmt.Sprintf("EqualType(S,T) != EqualType(T,S) for S = %s, T = %s", keep[i].String(), keep[j].String()), text, nil)
				}
				for k := 0; k < n; k++ {
					if ans[i][j] && ans[j][k] && !ans[i][k] {
						viol(r, "not transitive", fmt.Sprintf("S=T and T=U but not S=U for %s, %s, %s", keep[i].String(), keep[j].String(), keep[k].String()), text, nil)
					}
				}
			}
		}
	})
	if !res.Accepted() {
		// the environment itself is C10's subject; only note it here
		r.Note("well-formed candidate environment not accepted by the typechecker (see C10)")
		return
	}
	r.Add("environments", 1)
	r.Sample(strings.ReplaceAll(strings.TrimSpace(e.String()), "\n", " ; "))
}

// ---------- C16 ----------

func permutations(n int) [][]int {
	if n == 1 {
		return [][]int{{0}}
	}
	var out [][]int
	for _, p := range permutations(n - 1) {
		for i := 0; i <= len(p); i++ {
			q := append(append(append([]int{}, p[:i]...), n-1), p[i:]...)
			out = append(out, q)
		}
	}
	return out
}

// modesOf returns, per definition name, the ordered key (with modes) of its body after Typecheck.
func realDefModes(t *TCResult) (map[string]string, map[string]ref.Mode, string) {
	keys := map[string]string{}
	modes := map[string]ref.Mode{}
	bad := ""
	for _, d := range *t.Env.Types {
		rt := fromReal(d.SessionType)
		keys[d.Name] = orderedKey(rt)
		modes[d.Name] = refModeOf(d.Modality)
		var walk func(x *ref.Ty)
		walk = func(x *ref.Ty) {
			if x == nil {
				return
			}
			if x.K != ref.KUp && x.K != ref.KDown && (x.M == ref.MUnset || x.M == ref.MInvalid) {
				bad = "a type node of " + d.Name + " has no valid mode after typechecking"
			}
			if (x.K == ref.KUp || x.K == ref.KDown) && (x.From == ref.MUnset || x.From == ref.MInvalid || x.To == ref.MUnset || x.To == ref.MInvalid) {
				bad = "a shift of " + d.Name + " has no valid mode after typechecking"
			}
			walk(x.L)
			walk(x.R)
			for _, b := range x.Br {
				walk(b.T)
			}
		}
		walk(rt)
	}
	// signatures
	for _, f := range *t.Env.FunctionDefinitions {
		if f.Type != nil {
			keys["sig:"+f.FunctionName] = orderedKey(fromReal(f.Type))
		}
		for _, p := range f.Parameters {
			if p.Type != nil {
				keys["par:"+f.FunctionName+":"+p.Ident] = orderedKey(fromReal(p.Type))
			}
		}
	}
	return keys, modes, bad
}

func checkC16Env(e *ref.Env, r *harness.Rec) {
	text := envProgram(e)
	var keys map[string]string
	var modes map[string]ref.Mode
	var bad string
	res := TypecheckText(text, nil, func(t *TCResult) { keys, modes, bad = realDefModes(t) })
	r.Add("evaluations", 1)
	if !res.Accepted() {
		// reverse direction of annotation stability: a well-formed environment that is rejected must not
		// become accepted by merely writing the (reference-)inferred head annotations explicitly
		if res.ParseErr == "" && len(res.Panics) == 0 && !res.Blocked && e.WellFormed() == "" {
			ae := &ref.Env{}
			for _, d := range e.Defs {
				ae.Defs = append(ae.Defs, ref.TypeDef{Name: d.Name, Body: ref.AnnTy{Ann: d.Mode, T: d.Body.T.Copy()}})
			}
			atext := envProgram(ae)
			ares := TypecheckText(atext, nil, nil)
			r.Add("evaluations", 1)
			if ares.Accepted() {
				viol(r, "explicit annotation changes the verdict", "rejected ("+res.TypeErr+"), but accepted once the inferred head annotations are written explicitly", atext, map[string]interface{}{"original": text})
			}
		}
		return
	}
	r.Add("accepted_envs", 1)
	if bad != "" {
		viol(r, "node without mode", bad, text, nil)
	}
	wfEnv := e.WellFormed() == ""
	unann := false
	for _, d := range e.Defs {
		if d.Body.Ann == ref.MUnset {
			unann = true
		}
	}
	if unann {
		r.Add("distinct_nontrivial", 1)
		r.Sample(strings.ReplaceAll(strings.TrimSpace(e.String()), "\n", " ; "))
	}
	// e has been elaborated by WellFormed; the comparison with the reference inference only makes sense
	// for well-formed environments (an accepted ill-formed one is C10's subject), the invariance checks
	// below apply to everything the typechecker accepts
	for _, d := range e.Defs {
		if !wfEnv {
			break
		}
		if modes[d.Name] != d.Mode {
			viol(r, "definition mode differs from reference inference", fmt.Sprintf("definition %s has mode %s, reference inference gives %s", d.Name, modes[d.Name], d.Mode), text, nil)
		}
		if want := orderedKey(d.Body.T); keys[d.Name] != want {
			viol(r, "node modes differ from reference inference", fmt.Sprintf("definition %s elaborates to %s, reference gives %s", d.Name, keys[d.Name], want), text, nil)
		}
		nm := ref.Name(d.Name)
		nm.M = d.Mode
		if keys["sig:u"+d.Name] != orderedKey(nm) || keys["par:u"+d.Name+":x"] != orderedKey(nm) {
			viol(r, "signature mode differs from reference inference", fmt.Sprintf("signature of u%s elaborates to %s / %s, expected %s", d.Name, keys["sig:u"+d.Name], keys["par:u"+d.Name+":x"], orderedKey(nm)), text, nil)
		}
	}
	// permutations of the definitions (functions stay behind them and are permuted as a block too)
	if len(e.Defs) > 1 {
		for _, p := range permutations(len(e.Defs))[1:] {
			pe := &ref.Env{}
			for _, i := range p {
				pe.Defs = append(pe.Defs, e.Defs[i])
			}
			ptext := envProgram(pe)
			var pk map[string]string
			var pm map[string]ref.Mode
			pres := TypecheckText(ptext, nil, func(t *TCResult) { pk, pm, _ = realDefModes(t) })
			r.Add("evaluations", 1)
			if !pres.Accepted() {
				viol(r, "verdict depends on declaration order", "accepted in one order, rejected in another: "+pres.TypeErr+strings.Join(pres.Panics, ";"), ptext, map[string]interface{}{"original": text})
				continue
			}
			for n, k := range keys {
				if pk[n] != k {
					viol(r, "modes depend on declaration order", fmt.Sprintf("%s elaborates to %s in one order and %s in another", n, k, pk[n]), ptext, map[string]interface{}{"original": text})
					break
				}
			}
			_ = pm
		}
		// functions before types
		var fb strings.Builder
		for _, d := range e.Defs {
			fmt.Fprintf(&fb, "let u%s(x : %s) : %s = fwd self x\n", d.Name, d.Name, d.Name)
		}
		fb.WriteString(e.String())
		var pk map[string]string
		pres := TypecheckText(fb.String(), nil, func(t *TCResult) { pk, _, _ = realDefModes(t) })
		r.Add("evaluations", 1)
		if !pres.Accepted() {
			viol(r, "verdict depends on declaration order", "rejected when functions precede the type definitions: "+pres.TypeErr, fb.String(), nil)
		} else {
			for n, k := range keys {
				if pk[n] != k {
					viol(r, "modes depend on declaration order", fmt.Sprintf("%s elaborates to %s / %s", n, k, pk[n]), fb.String(), nil)
					break
				}
			}
		}
	}
	// explicit annotation of the inferred head mode
	ae := &ref.Env{}
	for _, d := range e.Defs {
		hm := modes[d.Name] // the mode the typechecker itself inferred for the definition
		if hm == ref.MUnset || hm == ref.MInvalid {
			return
		}
		b := ref.AnnTy{Ann: hm, T: d.Body.T.Copy()}
		ae.Defs = append(ae.Defs, ref.TypeDef{Name: d.Name, Body: b})
	}
	atext := envProgram(ae)
	var ak map[string]string
	ares := TypecheckText(atext, nil, func(t *TCResult) { ak, _, _ = realDefModes(t) })
	r.Add("evaluations", 1)
	if !ares.Accepted() {
		viol(r, "explicit annotation changes the verdict", "rejected after writing the inferred head annotation explicitly: "+ares.TypeErr, atext, map[string]interface{}{"original": text})
	} else {
		for n, k := range keys {
			if ak[n] != k {
				viol(r, "explicit annotation changes the modes", fmt.Sprintf("%s elaborates to %s without and %s with the explicit annotation", n, k, ak[n]), atext, map[string]interface{}{"original": text})
				break
			}
		}
	}
}
