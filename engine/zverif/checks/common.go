// Package checks contains one driver per property (registered with the harness).
package checks

import (
	"fmt"
	"os"
	"path/filepath"
	"regexp"
	"sort"
	"strings"

	"grits/zverif/explore"
	"grits/zverif/harness"
	"grits/zverif/ref"
	"grits/zverif/vsched"
)

type Prog struct {
	Name string
	Text string
}

// harnessDebug receives per-case debug lines (stderr of the worker; shown with VERIF_DEBUG=1).
var harnessDebug = os.Stderr

var corpusCache []Prog

var exampleDeny = map[string]bool{}

// Corpus = /verif/corpus/*.grits plus the closed examples of the repository.
func Corpus(c *harness.Ctx) []Prog {
	if corpusCache != nil {
		return corpusCache
	}
	var out []Prog
	add := func(dir, prefix string) {
		files, _ := filepath.Glob(filepath.Join(dir, "*.grits"))
		sort.Strings(files)
		for _, f := range files {
			b, err := os.ReadFile(f)
			if err != nil {
				continue
			}
			txt := string(b)
			if hasAssuming(txt) {
				continue
			}
			out = append(out, Prog{Name: prefix + filepath.Base(f), Text: txt})
		}
	}
	add(filepath.Join(c.VerifDir, "corpus"), "corpus/")
	add(filepath.Join(c.RepoDir, "examples"), "examples/")
	corpusCache = out
	return out
}

var reLineComment = regexp.MustCompile(`//[^\n]*`)
var reBlockComment = regexp.MustCompile(`(?s)/\*.*?\*/`)

func stripComments(s string) string {
	s = reBlockComment.ReplaceAllString(s, " ")
	return reLineComment.ReplaceAllString(s, " ")
}

var reAssuming = regexp.MustCompile(`\bassuming\b`)
var reSplit = regexp.MustCompile(`\bsplit\b`)
var reMultiPrc = regexp.MustCompile(`\bprc\s*\[[^\]]*,[^\]]*\]`)

func hasAssuming(text string) bool { return reAssuming.MatchString(stripComments(text)) }

// ContractionFree: no split and no multi-name provider declaration.
func ContractionFree(text string) bool {
	t := stripComments(text)
	return !reSplit.MatchString(t) && !reMultiPrc.MatchString(t)
}

var reNorm = []*regexp.Regexp{
	regexp.MustCompile(`task \d+ \(([a-zA-Z]+)\)`),
	regexp.MustCompile(`prc\[[^\]]*\]`),
	regexp.MustCompile(`0x[0-9a-f]+`),
}

// NormMsg turns a panic/diagnostic text into a stable class key.
func NormMsg(s string) string {
	s = explore.CleanPanic(s)
	s = reNorm[0].ReplaceAllString(s, "task($1)")
	s = reNorm[1].ReplaceAllString(s, "prc[_]")
	s = reNorm[2].ReplaceAllString(s, "0x_")
	if len(s) > 160 {
		s = s[:160]
	}
	return s
}

func modeName(m int) string { return []string{"async", "sync", "np"}[m] }

func replayOf(p Prog, cfg explore.Config, choices []int, observed string) map[string]interface{} {
	return map[string]interface{}{"kind": "schedule", "program_name": p.Name, "program": p.Text, "mode": cfg.Mode, "monitor": cfg.Monitor, "delay_ms": cfg.DelayMS, "choices": choices, "observed": observed}
}

// confirm re-runs a schedule n times and reports whether the outcome key is identical every time.
func confirm(p Prog, cfg explore.Config, choices []int, want string, n int) bool {
	for i := 0; i < n; i++ {
		ex := explore.RunOnce(p.Text, cfg, choices, vsched.Options{}, false)
		if ex.OutcomeKey() != want {
			return false
		}
	}
	return true
}

func tierDelay(c *harness.Ctx) int {
	if c.Thorough() {
		return 2
	}
	return 1
}

// delayFor: the delay bound per program class. quick: 1 everywhere. thorough: 3 for the hand-written
// driver corpus, 2 for the examples and the size-3 generated programs, 1 for the size-4 generated ones.
func delayFor(c *harness.Ctx, name string) int {
	if !c.Thorough() {
		return 1
	}
	switch {
	case strings.HasPrefix(name, "corpus/"):
		return 3
	case strings.HasPrefix(name, "gen4/"):
		return 1
	}
	return 2
}

func horizonFor(c *harness.Ctx, name string) int {
	if !c.Thorough() {
		return 60
	}
	if strings.HasPrefix(name, "corpus/") {
		return 70
	}
	return 150
}

func tierHorizon(c *harness.Ctx) int {
	if c.Thorough() {
		return 150
	}
	return 60
}

func capExecs(c *harness.Ctx) int64 {
	if c.Thorough() {
		return 1500000
	}
	return 20000
}

// Replay re-executes a replay file (dispatch on its kind) and prints what happens on the current tree.
func Replay(rp map[string]interface{}) {
	r, _ := rp["replay"].(map[string]interface{})
	if r == nil {
		r = rp
	}
	kind, _ := r["kind"].(string)
	fmt.Println("property    :", rp["property"], " key:", rp["key"])
	switch kind {
	case "typecheck", "term-roundtrip":
		text, _ := r["program"].(string)
		var ch []int
		if l, ok := r["choices"].([]interface{}); ok {
			for _, x := range l {
				ch = append(ch, int(toF(x)))
			}
		}
		g := TypecheckText(text, ch, nil)
		fmt.Println("program     :\n" + text)
		fmt.Println("parse error :", g.ParseErr)
		fmt.Println("type error  :", g.TypeErr)
		fmt.Println("panics      :", g.Panics, " blocked:", g.Blocked, " fuel exhausted:", g.FuelOut)
		if p, err := ref.ParseProgram(text); err == nil {
			v, _ := ref.CheckProgram(p, false)
			fmt.Println("reference   :", v.Kind, v.Reason, v.Detail)
		}
		return
	case "parse":
		text, _ := r["text"].(string)
		g := ParseText(text)
		toks, ok := ref.Tokenize(text)
		fmt.Printf("text        : %q\n", text)
		fmt.Println("accepted    :", g.Accepted, " error:", g.Err, " panics:", g.Panics, " blocked:", g.Blocked, " fuel:", g.Fuel)
		fmt.Println("declarations:", declKey(g.Decls))
		fmt.Println("reference   : alphabet ok =", ok, " grammatical =", ok && ref.Recognize(toks), " declarations:", declKey(ref.Declarations(toks)))
		return
	case "history":
		var hist, ch []int
		if l, ok := r["history"].([]interface{}); ok {
			for _, x := range l {
				hist = append(hist, int(toF(x)))
			}
		}
		if l, ok := r["choices"].([]interface{}); ok {
			for _, x := range l {
				ch = append(ch, int(toF(x)))
			}
		}
		mode := int(toF(r["mode"]))
		c19SharedRE, _ = r["shared"].(bool)
		h := runHistory(hist, mode, ch)
		for i, o := range h.outcomes {
			solo, _ := soloOutcome(hist[i], mode)
			fmt.Printf("run %d (program %d): %s   | alone in a fresh process: %s\n", i, hist[i], o.key(), solo.key())
		}
		fmt.Println("late prints :", h.late)
		return
	case "schedule", "schedule-pair":
		// below
	default:
		fmt.Println("this kind of counterexample (" + kind + ") is not re-executed; recorded details:")
		for k, v := range r {
			fmt.Printf("  %s: %v\n", k, v)
		}
		return
	}
	text, _ := r["program"].(string)
	mode := int(toF(r["mode"]))
	mon, _ := r["monitor"].(bool)
	var ch []int
	if l, ok := r["choices"].([]interface{}); ok {
		for _, x := range l {
			ch = append(ch, int(toF(x)))
		}
	}
	cfgR := explore.Config{Mode: mode, Monitor: mon, DelayMS: int(toF(r["delay_ms"]))}
	ex := explore.RunOnce(text, cfgR, ch, vsched.Options{}, false)
	fmt.Println("program     :\n" + text)
	fmt.Println("config      :", cfgR, " schedule:", ch)
	fmt.Println("parse error :", ex.ParseErr)
	fmt.Println("type error  :", ex.TypeErr)
	fmt.Println("outcome     :", ex.OutcomeKey())
	fmt.Println("print order :", strings.Join(ex.Prints, " "))
	for _, n := range ex.Res.Notes {
		fmt.Println("note        :", n)
	}
	for _, t := range ex.Res.Tasks {
		if t.Panic != "" {
			fmt.Printf("panic in task %d (%s): %s\n", t.ID, t.Name, explore.CleanPanic(t.Panic))
		}
	}
	for _, l := range ex.LiveAtQuiescence() {
		fmt.Println("live at quiescence:", l.Desc)
	}
}

func toF(x interface{}) float64 {
	f, _ := x.(float64)
	return f
}
