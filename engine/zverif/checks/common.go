// Package checks contains one driver per property (registered with the harness).
package checks

import (
	"fmt"
	"os"
	"path/filepath"
	"regexp"
	"sort"
	"strings"

	"grits/zverif/explore"
	"grits/zverif/harness"
	"grits/zverif/vsched"
)

type Prog struct {
	Name string
	Text string
}

var corpusCache []Prog

var exampleDeny = map[string]bool{}

// Corpus = /verif/corpus/*.grits plus the closed examples of the repository.
func Corpus(c *harness.Ctx) []Prog {
	if corpusCache != nil {
		return corpusCache
	}
	var out []Prog
	add := func(dir, prefix string) {
		files, _ := filepath.Glob(filepath.Join(dir, "*.grits"))
		sort.Strings(files)
		for _, f := range files {
			b, err := os.ReadFile(f)
			if err != nil {
				continue
			}
			txt := string(b)
			if hasAssuming(txt) {
				continue
			}
			out = append(out, Prog{Name: prefix + filepath.Base(f), Text: txt})
		}
	}
	add(filepath.Join(c.VerifDir, "corpus"), "corpus/")
	add(filepath.Join(c.RepoDir, "examples"), "examples/")
	corpusCache = out
	return out
}

var reLineComment = regexp.MustCompile(`//[^\n]*`)
var reBlockComment = regexp.MustCompile(`(?s)/\*.*?\*/`)

func stripComments(s string) string {
	s = reBlockComment.ReplaceAllString(s, " ")
	return reLineComment.ReplaceAllString(s, " ")
}

var reAssuming = regexp.MustCompile(`\bassuming\b`)
var reSplit = regexp.MustCompile(`\bsplit\b`)
var reMultiPrc = regexp.MustCompile(`\bprc\s*\[[^\]]*,[^\]]*\]`)

func hasAssuming(text string) bool { return reAssuming.MatchString(stripComments(text)) }

// ContractionFree: no split and no multi-name provider declaration.
func ContractionFree(text string) bool {
	t := stripComments(text)
	return !reSplit.MatchString(t) && !reMultiPrc.MatchString(t)
}

var reNorm = []*regexp.Regexp{
	regexp.MustCompile(`task \d+ \(([a-zA-Z]+)\)`),
	regexp.MustCompile(`prc\[[^\]]*\]`),
	regexp.MustCompile(`0x[0-9a-f]+`),
}

// NormMsg turns a panic/diagnostic text into a stable class key.
func NormMsg(s string) string {
	s = explore.CleanPanic(s)
	s = reNorm[0].ReplaceAllString(s, "task($1)")
	s = reNorm[1].ReplaceAllString(s, "prc[_]")
	s = reNorm[2].ReplaceAllString(s, "0x_")
	if len(s) > 160 {
		s = s[:160]
	}
	return s
}

func modeName(m int) string { return []string{"async", "sync", "np"}[m] }

func replayOf(p Prog, cfg explore.Config, choices []int, observed string) map[string]interface{} {
	return map[string]interface{}{"kind": "schedule", "program_name": p.Name, "program": p.Text, "mode": cfg.Mode, "monitor": cfg.Monitor, "choices": choices, "observed": observed}
}

// confirm re-runs a schedule n times and reports whether the outcome key is identical every time.
func confirm(p Prog, cfg explore.Config, choices []int, want string, n int) bool {
	for i := 0; i < n; i++ {
		ex := explore.RunOnce(p.Text, cfg, choices, vsched.Options{}, false)
		if ex.OutcomeKey() != want {
			return false
		}
	}
	return true
}

func tierDelay(c *harness.Ctx) int {
	if c.Thorough() {
		return 2
	}
	return 1
}

func tierHorizon(c *harness.Ctx) int {
	if c.Thorough() {
		return 150
	}
	return 60
}

func capExecs(c *harness.Ctx) int64 {
	if c.Thorough() {
		return 400000
	}
	return 20000
}

// Replay re-executes a replay file of kind "schedule".
func Replay(rp map[string]interface{}) {
	r, _ := rp["replay"].(map[string]interface{})
	if r == nil {
		r = rp
	}
	text, _ := r["program"].(string)
	mode := int(toF(r["mode"]))
	mon, _ := r["monitor"].(bool)
	var ch []int
	if l, ok := r["choices"].([]interface{}); ok {
		for _, x := range l {
			ch = append(ch, int(toF(x)))
		}
	}
	ex := explore.RunOnce(text, explore.Config{Mode: mode, Monitor: mon}, ch, vsched.Options{}, false)
	fmt.Println("parse error :", ex.ParseErr)
	fmt.Println("type error  :", ex.TypeErr)
	fmt.Println("outcome     :", ex.OutcomeKey())
	fmt.Println("print order :", strings.Join(ex.Prints, " "))
	for _, n := range ex.Res.Notes {
		fmt.Println("note        :", n)
	}
	for _, t := range ex.Res.Tasks {
		if t.Panic != "" {
			fmt.Printf("panic in task %d (%s): %s\n", t.ID, t.Name, explore.CleanPanic(t.Panic))
		}
	}
	for _, l := range ex.LiveAtQuiescence() {
		fmt.Println("live at quiescence:", l.Desc)
	}
}

func toF(x interface{}) float64 {
	f, _ := x.(float64)
	return f
}
