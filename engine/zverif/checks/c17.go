package checks

import (
	"fmt"
	"strings"

	"grits/types"
	"grits/zverif/harness"
	"grits/zverif/ref"
)

func realMode(m ref.Mode) types.Modality {
	switch m {
	case ref.MRep:
		return types.NewReplicableMode()
	case ref.MMul:
		return types.NewMulticastMode()
	case ref.MAff:
		return types.NewAffineMode()
	case ref.MLin:
		return types.NewLinearMode()
	}
	return nil
}

// refModeOf maps a real modality back to the reference enumeration (by dynamic type, not by name).
func refModeOf(m types.Modality) ref.Mode {
	switch m.(type) {
	case *types.ReplicableMode:
		return ref.MRep
	case *types.MulticastMode:
		return ref.MMul
	case *types.AffineMode:
		return ref.MAff
	case *types.LinearMode:
		return ref.MLin
	case *types.UnsetMode:
		return ref.MUnset
	}
	return ref.MInvalid
}

func safe(f func() bool) (res bool, panicked string) {
	defer func() {
		if r := recover(); r != nil {
			panicked = fmt.Sprint(r)
		}
	}()
	return f(), ""
}

func init() {
	harness.Register(&harness.Check{
		ID: "C17", Level: "exploration",
		Rule:        "complete enumeration of the 4 modes, 16 ordered pairs and 64 triples against a hand-written table of the adjoint preorder (order laws, converse law, monotonicity of weakening/contraction, Equals, Copy), plus every documented spelling of every mode in 3 letter cases and a set of near-miss spellings; every tuple is a distinct non-trivial case",
		Assumptions: []string{"the reference table in ref.GE transcribes the lattice of the README/documentation (rep top, lin bottom, aff and mul incomparable)"},
		Cases:       func(c *harness.Ctx) int { return 1 },
		Run: func(c *harness.Ctx, idx int, r *harness.Rec) {
			viol := func(key, desc string) {
				r.Violation(harness.Violation{Key: key, Desc: desc, Replay: map[string]interface{}{"kind": "modes", "case": desc}})
			}
			n := int64(0)
			for _, m := range ref.Modes4 {
				rm := realMode(m)
				n++
				if rm.AllowsWeakening() != ref.Weaken(m) {
					viol("weakening "+m.String(), fmt.Sprintf("AllowsWeakening(%s)=%v, expected %v", m, rm.AllowsWeakening(), ref.Weaken(m)))
				}
				if rm.AllowsContraction() != ref.Contract(m) {
					viol("contraction "+m.String(), fmt.Sprintf("AllowsContraction(%s)=%v, expected %v", m, rm.AllowsContraction(), ref.Contract(m)))
				}
				if refModeOf(rm.Copy()) != m {
					viol("copy "+m.String(), "Copy() changes the mode "+m.String())
				}
				if ref.ParseMode(rm.String()) != m || ref.ParseMode(rm.FullString()) != m {
					viol("name "+m.String(), fmt.Sprintf("String()/FullString() of %s are %q/%q", m, rm.String(), rm.FullString()))
				}
				for _, k := range ref.Modes4 {
					rk := realMode(k)
					n++
					dn, p1 := safe(func() bool { return rm.CanBeDownshiftedTo(rk) })
					up, p2 := safe(func() bool { return rk.CanBeUpshiftedTo(rm) })
					if p1 != "" || p2 != "" {
						viol(fmt.Sprintf("panic %s %s", m, k), "shift query panics: "+p1+p2)
						continue
					}
					if dn != ref.GE(m, k) {
						viol(fmt.Sprintf("down %s %s", m, k), fmt.Sprintf("%s.CanBeDownshiftedTo(%s)=%v, expected %v", m, k, dn, ref.GE(m, k)))
					}
					if up != dn {
						viol(fmt.Sprintf("converse %s %s", m, k), fmt.Sprintf("%s.CanBeUpshiftedTo(%s)=%v but %s.CanBeDownshiftedTo(%s)=%v", k, m, up, m, k, dn))
					}
					if rm.Equals(rk) != (m == k) {
						viol(fmt.Sprintf("equals %s %s", m, k), fmt.Sprintf("%s.Equals(%s)=%v", m, k, rm.Equals(rk)))
					}
					if dn {
						// monotone structural rules: sigma(k) subset of sigma(m)
						if (rk.AllowsWeakening() && !rm.AllowsWeakening()) || (rk.AllowsContraction() && !rm.AllowsContraction()) {
							viol(fmt.Sprintf("monotone %s %s", m, k), fmt.Sprintf("%s >= %s but %s permits a structural rule that %s does not", m, k, k, m))
						}
						// antisymmetry
						back, _ := safe(func() bool { return rk.CanBeDownshiftedTo(rm) })
						if back && m != k {
							viol(fmt.Sprintf("antisym %s %s", m, k), fmt.Sprintf("%s and %s can be down-shifted to each other", m, k))
						}
					}
					for _, j := range ref.Modes4 {
						rj := realMode(j)
						n++
						a, _ := safe(func() bool { return rm.CanBeDownshiftedTo(rk) })
						b, _ := safe(func() bool { return rk.CanBeDownshiftedTo(rj) })
						cc, _ := safe(func() bool { return rm.CanBeDownshiftedTo(rj) })
						if a && b && !cc {
							viol(fmt.Sprintf("trans %s %s %s", m, k, j), fmt.Sprintf("%s>=%s and %s>=%s but not %s>=%s", m, k, k, j, m, j))
						}
					}
				}
				if x, _ := safe(func() bool { return rm.CanBeDownshiftedTo(rm) }); !x {
					viol("refl "+m.String(), m.String()+" cannot be down-shifted to itself")
				}
			}
			// spellings
			for m, sp := range ref.Spellings {
				for _, s := range sp {
					for _, v := range []string{s, strings.ToUpper(s), strings.ToUpper(s[:1]) + s[1:]} {
						n++
						if got := refModeOf(types.StringToMode(v)); got != m {
							viol("spelling "+v, fmt.Sprintf("StringToMode(%q) is %s, expected %s", v, got, m))
						}
					}
				}
			}
			for _, bad := range []string{"", "x", "li", "line", "linea", "re", "repl", "af", "affin", "mu", "multi", "ll", "rr", "unset", "lin ", "1", "replicabl", "multicas", "aa", "mm", "linearr"} {
				n++
				if got := refModeOf(types.StringToMode(bad)); got != ref.MInvalid {
					viol("spelling "+bad, fmt.Sprintf("StringToMode(%q) is %s, expected an invalid mode", bad, got))
				}
			}
			r.Add("evaluations", n)
			r.Add("distinct_nontrivial", n)
			r.Sample("rep.CanBeDownshiftedTo(lin) == true; aff vs mul incomparable; StringToMode(\"MUL\") == multicast")
		},
	})
}
