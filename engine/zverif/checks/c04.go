package checks

import (
	"fmt"
	"sort"
	"strings"

	"grits/zverif/explore"
	"grits/zverif/harness"
	"grits/zverif/ref"
)

type semRef struct {
	finals   map[string]bool
	unique   bool
	skip     string
	sem      *ref.Sem
	seqCache map[string]int // 1 producible, 2 not, 3 unknown (budget)
	states   int
}

func buildSemRef(p *ref.Program, text string) *semRef {
	sr := &semRef{seqCache: map[string]int{}}
	if v, _ := ref.CheckProgram(p.Copy(), true); v.Kind != "accept" {
		sr.skip = "reference typechecker does not accept the program (" + v.Kind + " " + v.Reason + ")"
		return sr
	}
	sr.sem = ref.NewSem(p)
	cf := ContractionFree(text)
	fin, ok := sr.sem.Finals()
	sr.states = sr.sem.States
	if ok {
		sr.finals = fin
		sr.unique = cf
		if cf && len(fin) != 1 {
			sr.skip = fmt.Sprintf("reference semantics gives %d multisets for a contraction-free program (reference model inconsistency)", len(fin))
		}
		return sr
	}
	if cf {
		one, ok := sr.sem.OneRun(200000)
		if !ok {
			sr.skip = "reference run exceeds its step budget (possibly non-terminating)"
			return sr
		}
		sr.finals = map[string]bool{one: true}
		sr.unique = true
		return sr
	}
	sr.skip = "reference exploration exceeds its state budget (program with contraction)"
	return sr
}

func (sr *semRef) canProduce(seq []string) int {
	k := strings.Join(seq, ",")
	if v, ok := sr.seqCache[k]; ok {
		return v
	}
	okp, complete := sr.sem.CanProduce(seq)
	v := 2
	if okp {
		v = 1
	} else if !complete {
		v = 3
	}
	sr.seqCache[k] = v
	return v
}

func init() {
	harness.Register(&harness.Check{
		ID: "C04", Level: "model_checking",
		Rule: mcRule + "; here a case is a closed driver/example program that the reference typechecker accepts, explored in all three modes (corpus/example programs also with a per-step delay larger than the heartbeat timeout, default schedule); the reference small-step semantics R-sem (ref/sem.go: axioms are messages, explicit duplication/drop, all interleavings explored with memoisation on canonical configurations) yields the set of admitted printed multisets (a singleton for contraction-free programs); oracle: for EVERY explored execution of the implementation the printed multiset is in that set, and the printed sequence is producible by R-sem (guided search); traces_validated_against_impl counts these executions; model_states = reference configurations explored",
		Assumptions: append([]string{"R-sem is hand-written from the SAX rules; its consistency is cross-checked (singleton for contraction-free programs; deterministic run = exhaustive result)"}, mcAssumptions...),
		Cases:       func(c *harness.Ctx) int { return len(basePrograms(c)) },
		Run: func(c *harness.Ctx, idx int, r *harness.Rec) {
			b := basePrograms(c)[idx]
			if len(b.P.Assumed) > 0 {
				return
			}
			text := b.P.String()
			sr := buildSemRef(b.P, text)
			if sr.skip != "" {
				r.Note("skipped: " + sr.skip)
				if strings.Contains(sr.skip, "inconsistency") {
					r.Violation(harness.Violation{Key: "engine: reference model inconsistency", Desc: b.Name + ": " + sr.skip, Replay: map[string]interface{}{"kind": "schedule", "program": text}})
				}
				return
			}
			r.Add("model_states", int64(sr.states))
			r.Add("programs_with_reference", 1)
			p := Prog{Name: b.Name, Text: text}
			reported := map[string]bool{}
			cfgs := []explore.Config{{Mode: 0}, {Mode: 1}, {Mode: 2}}
			if !strings.HasPrefix(b.Name, "gen") {
				// slowed-down execution (every step sleeps longer than the heartbeat timeout, as the web
				// server's defaults do); virtual time makes this deterministic
				cfgs = append(cfgs, explore.Config{Mode: 0, DelayMS: 120}, explore.Config{Mode: 1, DelayMS: 120})
			}
			for _, cfg := range cfgs {
				cfg := cfg
				res := exploreProgram(c, p, cfg, r, func(ex *explore.Exec) bool {
					if ex.Res.Err != "" {
						return true // engine-level budget, counted by exploreProgram
					}
					// an execution that panics or never returns is judged like any other: what it printed must
					// be a complete result of the reference semantics (the crash itself is C01's subject)
					ms := ex.PrintMultiset()
					if !sr.finals[ms] {
						var fs []string
						for f := range sr.finals {
							fs = append(fs, "{"+f+"}")
						}
						sort.Strings(fs)
						key := modeName(cfg.Mode) + ": printed multiset is not admitted by the reference semantics"
						if !reported[key] && confirm(p, cfg, ex.Res.Choices, ex.OutcomeKey(), 3) {
							reported[key] = true
							r.Violation(harness.Violation{Key: key + ": " + b.Name, Desc: fmt.Sprintf("%s [%s]: printed {%s}, reference admits %s", b.Name, cfg, ms, strings.Join(fs, " or ")), Replay: replayOf(p, cfg, ex.Res.Choices, ex.OutcomeKey())})
						}
						return true
					}
					switch sr.canProduce(ex.Prints) {
					case 2:
						key := modeName(cfg.Mode) + ": printed order is not producible by the reference semantics"
						if !reported[key] && confirm(p, cfg, ex.Res.Choices, ex.OutcomeKey(), 3) {
							reported[key] = true
							r.Violation(harness.Violation{Key: key + ": " + b.Name, Desc: fmt.Sprintf("%s [%s]: printed sequence %v", b.Name, cfg, ex.Prints), Replay: replayOf(p, cfg, ex.Res.Choices, ex.OutcomeKey())})
						}
					case 3:
						r.Note("order check inconclusive (reference budget)")
					default:
						r.Add("sequences_validated", 1)
					}
					return true
				})
				if res.skipped != "" {
					return
				}
			}
			r.Add("distinct_sequences_checked", int64(len(sr.seqCache)))
		},
	})
}
