package ref

// R-gram: an independent tokenizer and an Earley recognizer over a hand transcription of the
// grammar (README grammar united with the productions of parser.y; see DESIGN note 4.3).

import (
	"strconv"
	"strings"
	"unicode/utf8"
)

type Tok struct {
	Kind string // terminal name, e.g. LABEL, TYPE, LANGLE ...
	Text string
}

var keywords = map[string]string{
	"send": "SEND", "recv": "RECEIVE", "receive": "RECEIVE", "case": "CASE", "close": "CLOSE", "wait": "WAIT",
	"cast": "CAST", "shift": "SHIFT", "accept": "ACCEPT", "acc": "ACCEPT", "acquire": "ACQUIRE", "acq": "ACQUIRE",
	"detach": "DETACH", "det": "DETACH", "release": "RELEASE", "rel": "RELEASE", "drop": "DROP", "split": "SPLIT",
	"push": "PUSH", "new": "NEW", "snew": "SNEW", "forward": "FORWARD", "fwd": "FORWARD", "type": "TYPE", "let": "LET",
	"in": "IN", "end": "END", "sprc": "SPRC", "prc": "PRC", "self": "SELF", "assuming": "ASSUMING", "exec": "EXEC", "print": "PRINT",
}

var punct = map[rune]string{
	'>': "RANGLE", '(': "LPAREN", ')': "RPAREN", '[': "LSBRACK", ']': "RSBRACK", '{': "LCBRACK", '}': "RCBRACK",
	'.': "DOT", ';': "SEQUENCE", ':': "COLON", '|': "PIPE", ',': "COMMA", '+': "PLUS", '*': "TIMES", '&': "AMPERSAND", '%': "PERCENTAGE",
}

func isLabelRune(r rune) bool {
	return ('a' <= r && r <= 'z') || ('A' <= r && r <= 'Z') || ('0' <= r && r <= '9') || r == '_' || r == '\''
}

// Tokenize returns the tokens of s, or ok=false if s contains material outside the language's alphabet.
func Tokenize(s string) (toks []Tok, ok bool) {
	i := 0
	for i < len(s) {
		r, size := utf8.DecodeRuneInString(s[i:])
		if r == utf8.RuneError && size == 1 {
			return toks, false
		}
		switch {
		case r == ' ' || r == '\t' || r == '\n' || r == '\v' || r == '\r':
			i += size
		case r == '/' && i+1 < len(s) && s[i+1] == '/':
			j := strings.IndexByte(s[i:], '\n')
			if j < 0 {
				return toks, true
			}
			i += j + 1
		case r == '/' && i+1 < len(s) && s[i+1] == '*':
			j := strings.Index(s[i+2:], "*/")
			if j < 0 {
				return toks, true // unterminated comment extends to the end of the text
			}
			i += 2 + j + 2
		case r == '/' && i+1 < len(s) && s[i+1] == '\\':
			toks = append(toks, Tok{"UP_ARROW", "/\\"})
			i += 2
		case r == '\\' && i+1 < len(s) && s[i+1] == '/':
			toks = append(toks, Tok{"DOWN_ARROW", "\\/"})
			i += 2
		case r == '=':
			if i+1 < len(s) && s[i+1] == '>' {
				toks = append(toks, Tok{"RIGHT_ARROW", "=>"})
				i += 2
			} else {
				toks = append(toks, Tok{"EQUALS", "="})
				i++
			}
		case r == '<':
			if i+1 < len(s) && s[i+1] == '-' {
				toks = append(toks, Tok{"LEFT_ARROW", "<-"})
				i += 2
			} else {
				toks = append(toks, Tok{"LANGLE", "<"})
				i++
			}
		case r == '-':
			if i+1 < len(s) && (s[i+1] == '*' || s[i+1] == 'o') {
				toks = append(toks, Tok{"LOLLI", s[i : i+2]})
				i += 2
			} else {
				toks = append(toks, Tok{"MINUS", "-"})
				i++
			}
		case isLabelRune(r):
			j := i
			for j < len(s) && isLabelRune(rune(s[j])) {
				j++
			}
			w := s[i:j]
			if w == "1" {
				toks = append(toks, Tok{"UNIT", w})
			} else if k, isKw := keywords[w]; isKw {
				toks = append(toks, Tok{k, w})
			} else {
				toks = append(toks, Tok{"LABEL", w})
			}
			i = j
		default:
			if k, isP := punct[r]; isP {
				toks = append(toks, Tok{k, string(r)})
				i += size
			} else {
				return toks, false
			}
		}
	}
	return toks, true
}

type prod struct {
	lhs string
	rhs []string
}

var grammar []prod
var nullable = map[string]bool{}
var nonterm = map[string]bool{}

func g(lhs string, alts ...string) {
	for _, a := range alts {
		grammar = append(grammar, prod{lhs, strings.Fields(a)})
		nonterm[lhs] = true
	}
}

func init() {
	// program: a bare expression (parser.y, "todo remove") or a non-empty list of statements
	g("program", "expression", "statements")
	g("statements", "stmt", "stmt statements")
	g("stmt", "process_def", "function_def", "type_def", "assuming_def", "exec_def")
	// README: prc '[' name ']' : type = term ; parser.y also: several names, and no type
	g("process_def", "PRC LSBRACK names RSBRACK EQUALS expression", "PRC LSBRACK names RSBRACK COLON session_type EQUALS expression")
	g("expression",
		"SEND name LANGLE name COMMA name RANGLE",
		"LANGLE name COMMA name RANGLE LEFT_ARROW RECEIVE name SEQUENCE expression",
		"name DOT LABEL LANGLE name RANGLE",
		"CASE name LPAREN branches RPAREN",
		"name LEFT_ARROW NEW expression SEQUENCE expression",
		"LABEL COLON session_type LEFT_ARROW NEW expression SEQUENCE expression",
		"LABEL LPAREN optional_names RPAREN",
		"CLOSE name",
		"FORWARD name name",
		"LANGLE name COMMA name RANGLE LEFT_ARROW SPLIT name SEQUENCE expression",
		"WAIT name SEQUENCE expression",
		"CAST name LANGLE name RANGLE",
		"name LEFT_ARROW SHIFT name SEQUENCE expression",
		"DROP name SEQUENCE expression", // parser.y (used by every example with weakening; missing in the README grammar)
		"LPAREN expression RPAREN",
		"PRINT LABEL SEQUENCE expression")
	// README requires at least one branch; parser.y also allows none (needed for &{} never written, kept)
	g("branches", "", "LABEL LANGLE name RANGLE RIGHT_ARROW expression", "branches PIPE LABEL LANGLE name RANGLE RIGHT_ARROW expression")
	g("names", "name", "name COMMA names")
	g("optional_names", "", "name", "name COMMA names")
	g("optional_names_ann", "", "name_ann", "name_ann COMMA names_ann")
	g("comma_optional_names_ann", "", "COMMA optional_names_ann")
	g("names_ann", "name_ann", "name_ann COMMA names_ann")
	g("name_ann", "LABEL", "LABEL COLON session_type")
	g("name", "SELF", "polarity SELF", "LABEL", "polarity LABEL")
	g("assuming_def", "ASSUMING names_ann")
	g("function_def",
		"LET LABEL LPAREN optional_names_ann RPAREN EQUALS expression",
		"LET LABEL LPAREN optional_names_ann RPAREN COLON session_type EQUALS expression",
		"LET LABEL LSBRACK LABEL comma_optional_names_ann RSBRACK EQUALS expression",
		"LET LABEL LSBRACK LABEL COLON session_type comma_optional_names_ann RSBRACK EQUALS expression")
	g("type_def", "TYPE LABEL EQUALS session_type")
	g("session_type", "session_type_init", "modality session_type_init")
	g("session_type_init",
		"LABEL", "UNIT",
		"PLUS LCBRACK options RCBRACK", "AMPERSAND LCBRACK options RCBRACK",
		"session_type_init TIMES session_type_init", "session_type_init LOLLI session_type_init",
		"LPAREN session_type_init RPAREN",
		"modality UP_ARROW modality session_type_init", "modality DOWN_ARROW modality session_type_init")
	g("options", "LABEL COLON session_type_init", "LABEL COLON session_type_init COMMA options")
	g("modality", "LABEL")
	g("polarity", "PLUS", "MINUS")
	g("exec_def", "EXEC LABEL LPAREN RPAREN")
	// nullable non-terminals
	for changed := true; changed; {
		changed = false
		for _, p := range grammar {
			if nullable[p.lhs] {
				continue
			}
			all := true
			for _, s := range p.rhs {
				if !nullable[s] {
					all = false
				}
			}
			if all {
				nullable[p.lhs] = true
				changed = true
			}
		}
	}
}

type item struct{ p, dot, start int }

// Recognize reports whether the token string is a sentence of the grammar (Earley).
func Recognize(toks []Tok) bool {
	n := len(toks)
	sets := make([]map[item]bool, n+1)
	order := make([][]item, n+1)
	for i := range sets {
		sets[i] = map[item]bool{}
	}
	add := func(k int, it item) {
		if !sets[k][it] {
			sets[k][it] = true
			order[k] = append(order[k], it)
		}
	}
	for i, p := range grammar {
		if p.lhs == "program" {
			add(0, item{i, 0, 0})
		}
	}
	for k := 0; k <= n; k++ {
		for x := 0; x < len(order[k]); x++ {
			it := order[k][x]
			p := grammar[it.p]
			if it.dot < len(p.rhs) {
				sym := p.rhs[it.dot]
				if nonterm[sym] {
					for i, q := range grammar {
						if q.lhs == sym {
							add(k, item{i, 0, k})
						}
					}
					if nullable[sym] {
						add(k, item{it.p, it.dot + 1, it.start})
					}
				} else if k < n && toks[k].Kind == sym {
					add(k+1, item{it.p, it.dot + 1, it.start})
				}
			} else {
				for _, jt := range order[it.start] {
					q := grammar[jt.p]
					if jt.dot < len(q.rhs) && q.rhs[jt.dot] == p.lhs {
						add(k, item{jt.p, jt.dot + 1, jt.start})
					}
				}
			}
		}
	}
	for it := range sets[n] {
		p := grammar[it.p]
		if p.lhs == "program" && it.dot == len(p.rhs) && it.start == 0 {
			return true
		}
	}
	return false
}

// Decl is a top-level declaration (kind, name).
type Decl struct{ Kind, Name string }

// Declarations lists the declarations of a grammatical token string: the statement keywords
// cannot occur inside expressions or types, so each one starts a declaration.
func Declarations(toks []Tok) []Decl {
	var out []Decl
	stmtKw := map[string]bool{"TYPE": true, "LET": true, "PRC": true, "ASSUMING": true, "EXEC": true}
	if len(toks) > 0 && !stmtKw[toks[0].Kind] {
		return []Decl{{"process", "root"}}
	}
	execN := 0
	for i := 0; i < len(toks); i++ {
		switch toks[i].Kind {
		case "TYPE":
			if i+1 < len(toks) {
				out = append(out, Decl{"type", toks[i+1].Text})
			}
		case "LET":
			if i+1 < len(toks) {
				out = append(out, Decl{"function", toks[i+1].Text})
			}
		case "EXEC":
			execN++
		case "PRC":
			// prc [ names ]
			for j := i + 2; j < len(toks) && toks[j].Kind != "RSBRACK"; j++ {
				if toks[j].Kind == "LABEL" {
					out = append(out, Decl{"process", toks[j].Text})
				} else if toks[j].Kind == "SELF" {
					out = append(out, Decl{"process", ""})
				}
			}
		case "ASSUMING":
			depth := 0
			expectName := true
			for j := i + 1; j < len(toks) && !stmtKw[toks[j].Kind]; j++ {
				switch toks[j].Kind {
				case "LCBRACK", "LPAREN":
					depth++
				case "RCBRACK", "RPAREN":
					depth--
				case "COMMA":
					if depth == 0 {
						expectName = true
					}
				case "LABEL":
					if expectName && depth == 0 {
						out = append(out, Decl{"assumed", toks[j].Text})
						expectName = false
					}
				}
			}
		}
	}
	for k := 1; k <= execN; k++ {
		out = append(out, Decl{"process", "exec" + strconv.Itoa(k)})
	}
	return out
}
