package ref

// R-tc: reference typechecker for the adjoint semi-axiomatic session type system as Grits
// documents it. Verdict: accept, reject(reason class), or unknown (constructs whose declarative
// status is left open: explicit polarities, cut bodies that are neither axioms nor calls, ...).

import (
	"fmt"
	"sort"
)

type Verdict struct {
	Kind   string // "accept", "reject", "unknown"
	Reason string // class for reject/unknown
	Detail string
}

func accept() Verdict { return Verdict{Kind: "accept"} }
func reject(class, detail string, a ...interface{}) Verdict {
	return Verdict{Kind: "reject", Reason: class, Detail: fmt.Sprintf(detail, a...)}
}
func unknown(why string) Verdict { return Verdict{Kind: "unknown", Reason: why} }

// Judgement is one typing judgement Γ ⊢ P :: (c : A) met while checking (used by C06).
type Judgement struct {
	Where    string
	Gamma    map[string]*Ty
	ProvMode Mode
}

type Sig struct {
	Params   []*Ty
	PNames   []string
	Result   *Ty
	Provider string
}

type TC struct {
	P      *Program
	DM     map[string]Mode
	Sigs   map[string]*Sig
	Judges []Judgement
	// IndepViolations collects independence violations found in accepted sub-derivations
	// when LenientPrc is set (top-level processes are then not rejected for independence).
	LenientPrc bool
}

func modeOf(t *Ty) Mode { return t.M }

type ctx map[string]*Ty

func (g ctx) copy() ctx {
	c := ctx{}
	for k, v := range g {
		c[k] = v
	}
	return c
}

func (g ctx) names() string {
	var ns []string
	for k := range g {
		ns = append(ns, k)
	}
	sort.Strings(ns)
	return fmt.Sprint(ns)
}

func hasPol(t *Tm) bool {
	if t.Pol[0] != "" || t.Pol[1] != "" || t.Pol[2] != "" {
		return true
	}
	for _, p := range t.ArgPol {
		if p != "" {
			return true
		}
	}
	return false
}

// CheckProgram runs R-tc on a whole program.
func CheckProgram(p *Program, lenientPrc bool) (Verdict, *TC) {
	tc := &TC{P: p, Sigs: map[string]*Sig{}, LenientPrc: lenientPrc}
	if err := p.Env.WellFormed(); err != "" {
		return reject("ill-formed-type", string(err)), tc
	}
	tc.DM, _ = p.Env.Elaborate()
	elab := func(a *AnnTy, what string) (*Ty, *Verdict) {
		if a == nil {
			v := reject("missing-type", what+" has no type")
			return nil, &v
		}
		if err := p.Env.CheckType(*a, tc.DM); err != "" {
			v := reject("ill-formed-type", what+": "+string(err))
			return nil, &v
		}
		return a.T, nil
	}
	// function signatures
	for _, f := range p.Funcs {
		if _, dup := tc.Sigs[f.Name]; dup {
			return reject("signature", "function %s defined twice", f.Name), tc
		}
		s := &Sig{Provider: f.Provider}
		r, bad := elab(f.Result, "result of "+f.Name)
		if bad != nil {
			return *bad, tc
		}
		s.Result = r
		seen := map[string]bool{}
		for _, q := range f.Params {
			if seen[q.Name] {
				return reject("signature", "parameter %s of %s defined twice", q.Name, f.Name), tc
			}
			seen[q.Name] = true
			t, bad := elab(q.Ty, "parameter "+q.Name+" of "+f.Name)
			if bad != nil {
				return *bad, tc
			}
			s.Params = append(s.Params, t)
			s.PNames = append(s.PNames, q.Name)
		}
		tc.Sigs[f.Name] = s
	}
	for _, f := range p.Funcs {
		s := tc.Sigs[f.Name]
		for i, t := range s.Params {
			if !GE(modeOf(t), modeOf(s.Result)) {
				return reject("independence", "parameter %s of %s has mode %s, result has mode %s", s.PNames[i], f.Name, modeOf(t), modeOf(s.Result)), tc
			}
		}
	}
	// assumed names and processes: preliminary checks
	assumed := map[string]*Ty{}
	for _, a := range p.Assumed {
		if _, dup := assumed[a.Name]; dup {
			return reject("scope", "assumed name %s defined twice", a.Name), tc
		}
		t, bad := elab(a.Ty, "assumed name "+a.Name)
		if bad != nil {
			return *bad, tc
		}
		assumed[a.Name] = t
	}
	procTy := map[string]*Ty{}
	execN := 0
	type pinfo struct {
		names []string
		ty    *Ty
		body  *Tm
	}
	var procs []pinfo
	for _, q := range p.Procs {
		pi := pinfo{body: q.Body}
		if q.Exec != "" {
			execN++
			s, ok := tc.Sigs[q.Exec]
			if !ok || len(s.Params) > 1 {
				return unknown("exec of an unknown function or of a function with parameters (rejected by the parser)"), tc
			}
			if len(s.Params) == 1 {
				return unknown("exec of a unary function"), tc
			}
			pi.names = []string{fmt.Sprintf("exec%d", execN)}
			pi.ty = s.Result
		} else {
			pi.names = q.Names
			t, bad := elab(q.Ty, fmt.Sprintf("process %v", q.Names))
			if bad != nil {
				// Grits reports a missing type only after the uniqueness checks; the class is the same
				return *bad, tc
			}
			pi.ty = t
		}
		local := map[string]bool{}
		for _, n := range pi.names {
			if n == "self" {
				return unknown("process named self"), tc
			}
			if local[n] {
				return reject("scope", "provider name %s repeated", n), tc
			}
			local[n] = true
			if _, dup := procTy[n]; dup {
				return reject("scope", "provider name %s used by two processes", n), tc
			}
			procTy[n] = pi.ty
		}
		procs = append(procs, pi)
	}
	for n := range procTy {
		if _, both := assumed[n]; both {
			return reject("scope", "assumed name %s is also a process", n), tc
		}
	}
	used := map[string]bool{}
	for _, pi := range procs {
		if len(pi.names) > 1 && !Contract(modeOf(pi.ty)) {
			return reject("contraction", "process %v has several provider names but mode %s", pi.names, modeOf(pi.ty)), tc
		}
		if len(pi.names) > 1 {
			for _, n := range freeNames(pi.body) {
				for _, m := range pi.names {
					if n == m {
						return unknown("multi-name process refers to one of its names (rejected by the parser)"), tc
					}
				}
			}
		}
	}
	type pjudge struct {
		g  ctx
		pi pinfo
	}
	var pjs []pjudge
	for _, pi := range procs {
		g := ctx{}
		own := map[string]bool{}
		for _, n := range pi.names {
			own[n] = true
		}
		for _, n := range freeNames(pi.body) {
			if own[n] {
				continue
			}
			t, isProc := procTy[n]
			at, isAss := assumed[n]
			if !isProc && !isAss {
				return reject("scope", "name %s is not defined", n), tc
			}
			if used[n] {
				return reject("linearity", "top-level name %s is used by more than one process", n), tc
			}
			used[n] = true
			if isAss {
				t = at
			}
			g[n] = t
		}
		pjs = append(pjs, pjudge{g, pi})
	}
	for n := range assumed {
		if !used[n] {
			return reject("linearity", "assumed name %s is never used", n), tc
		}
	}
	// a configuration is a forest: no cycle in the 'uses' relation between the top-level processes
	{
		owner := map[string]int{}
		for i, pi := range procs {
			for _, n := range pi.names {
				owner[n] = i
			}
		}
		state := make([]int, len(procs))
		var visit func(i int) bool
		visit = func(i int) bool {
			state[i] = 1
			for n := range pjs[i].g {
				j, ok := owner[n]
				if !ok {
					continue
				}
				if state[j] == 1 || (state[j] == 0 && visit(j)) {
					return true
				}
			}
			state[i] = 2
			return false
		}
		for i := range procs {
			if state[i] == 0 && visit(i) {
				return reject("cyclic-configuration", "top-level processes depend on each other cyclically"), tc
			}
		}
	}
	// function bodies
	for _, f := range p.Funcs {
		s := tc.Sigs[f.Name]
		g := ctx{}
		for i, n := range s.PNames {
			g[n] = s.Params[i]
		}
		if v := tc.check(g, f.Body, f.Provider, s.Result, "function "+f.Name); v.Kind != "accept" {
			return v, tc
		}
	}
	for _, pj := range pjs {
		prov := ""
		for _, n := range freeNames(pj.pi.body) {
			for _, m := range pj.pi.names {
				if n == m {
					// the parser intends to let a process refer to its single provider by name, but the
					// README only documents self; the status of such programs is left open
					return unknown("process refers to its own provider name instead of self"), tc
				}
			}
		}
		for n, t := range pj.g {
			if !GE(modeOf(t), modeOf(pj.pi.ty)) {
				if !lenientPrc {
					return reject("independence-prc", "process %v of mode %s uses %s of mode %s", pj.pi.names, modeOf(pj.pi.ty), n, modeOf(t)), tc
				}
			}
		}
		if v := tc.check(pj.g, pj.pi.body, prov, pj.pi.ty, fmt.Sprintf("process %v", pj.pi.names)); v.Kind != "accept" {
			return v, tc
		}
	}
	return accept(), tc
}

func freeNames(t *Tm) []string {
	seen := map[string]bool{}
	var out []string
	var walk func(t *Tm, bound map[string]bool)
	add := func(n string, bound map[string]bool) {
		if n != "self" && n != "" && !bound[n] && !seen[n] {
			seen[n] = true
			out = append(out, n)
		}
	}
	with := func(b map[string]bool, ns ...string) map[string]bool {
		c := map[string]bool{}
		for k := range b {
			c[k] = true
		}
		for _, n := range ns {
			c[n] = true
		}
		return c
	}
	walk = func(t *Tm, bound map[string]bool) {
		if t == nil {
			return
		}
		switch t.K {
		case TSend:
			add(t.X, bound)
			add(t.Y, bound)
			add(t.Z, bound)
		case TRecv, TSplit:
			add(t.X, bound)
			walk(t.Cont, with(bound, t.Y, t.Z))
		case TSel, TCast:
			add(t.X, bound)
			add(t.Y, bound)
		case TCase:
			add(t.X, bound)
			for _, b := range t.Branches {
				walk(b.Body, with(bound, b.Var))
			}
		case TNew:
			walk(t.Body, bound)
			walk(t.Cont, with(bound, t.X))
		case TCall:
			for _, a := range t.Args {
				add(a, bound)
			}
		case TClose:
			add(t.X, bound)
		case TFwd:
			add(t.X, bound)
			add(t.Y, bound)
		case TWait, TDrop:
			add(t.X, bound)
			walk(t.Cont, bound)
		case TShift:
			add(t.X, bound)
			walk(t.Cont, with(bound, t.Y))
		case TPrint:
			walk(t.Cont, bound)
		}
	}
	walk(t, map[string]bool{})
	return out
}

func (tc *TC) eq(a, b *Ty) bool { return tc.P.Env.Equal(a, b) }
func (tc *TC) unf(t *Ty) *Ty    { return tc.P.Env.Unfold(t) }

func isProv(n, prov string) bool { return n == "self" || (prov != "" && n == prov) }

func (tc *TC) take(g ctx, n, prov string) (*Ty, *Verdict) {
	if n == "self" {
		v := reject("self-misuse", "self used where a client channel is required")
		return nil, &v
	}
	t, ok := g[n]
	if !ok {
		v := reject("linearity", "name %s is not available (undefined or already used)", n)
		if isProv(n, prov) {
			v = reject("self-misuse", "provider %s used where a client channel is required", n)
		}
		return nil, &v
	}
	delete(g, n)
	return t, nil
}

func (tc *TC) empty(g ctx) *Verdict {
	if len(g) > 0 {
		v := reject("linearity", "names %s are left unused", g.names())
		return &v
	}
	return nil
}

func fresh(g ctx, prov string, ns ...string) *Verdict {
	for i, n := range ns {
		if n == "self" {
			v := unknown("binder named self")
			return &v
		}
		if _, in := g[n]; in {
			v := reject("scope", "binder %s would shadow a channel that is still in scope", n)
			return &v
		}
		for _, m := range ns[:i] {
			if m == n {
				v := reject("scope", "binder %s is bound twice", n)
				return &v
			}
		}
	}
	return nil
}

// check: Γ ⊢ t :: (prov : A). g is consumed.
func (tc *TC) check(g ctx, t *Tm, prov string, A *Ty, where string) Verdict {
	if t == nil {
		return unknown("missing term")
	}
	if hasPol(t) {
		return unknown("explicit polarity annotation")
	}
	j := Judgement{Where: where, Gamma: map[string]*Ty{}, ProvMode: modeOf(A)}
	for k, v := range g {
		j.Gamma[k] = v
	}
	tc.Judges = append(tc.Judges, j)
	Au := tc.unf(A)
	if Au == nil {
		return reject("ill-formed-type", "provider type cannot be unfolded")
	}
	switch t.K {
	case TSend:
		if isProv(t.X, prov) {
			if Au.K != KTensor {
				return reject("head-constructor", "send on the provider, whose type is not a tensor")
			}
			y, bad := tc.take(g, t.Y, prov)
			if bad != nil {
				return *bad
			}
			z, bad := tc.take(g, t.Z, prov)
			if bad != nil {
				return *bad
			}
			if !tc.eq(Au.L, y) || !tc.eq(Au.R, z) {
				return reject("type-mismatch", "payload/continuation types of send do not match")
			}
			if bad := tc.empty(g); bad != nil {
				return *bad
			}
			return accept()
		}
		if isProv(t.Z, prov) {
			x, bad := tc.take(g, t.X, prov)
			if bad != nil {
				return *bad
			}
			xu := tc.unf(x)
			if xu.K != KLolli {
				return reject("head-constructor", "send to %s, whose type is not a lolli", t.X)
			}
			y, bad := tc.take(g, t.Y, prov)
			if bad != nil {
				return *bad
			}
			if !tc.eq(xu.L, y) || !tc.eq(xu.R, A) {
				return reject("type-mismatch", "payload/continuation types of send do not match")
			}
			if bad := tc.empty(g); bad != nil {
				return *bad
			}
			return accept()
		}
		return reject("self-misuse", "send must be on the provider or carry it as continuation")
	case TRecv:
		if isProv(t.X, prov) {
			if Au.K != KLolli {
				return reject("head-constructor", "receive on the provider, whose type is not a lolli")
			}
			if bad := fresh(g, prov, t.Y, t.Z); bad != nil {
				return *bad
			}
			g[t.Y] = Au.L
			return tc.check(g, t.Cont, t.Z, Au.R, where)
		}
		if isProv(t.Y, prov) || isProv(t.Z, prov) {
			return reject("self-misuse", "a received channel may not be called like the provider")
		}
		x, bad := tc.take(g, t.X, prov)
		if bad != nil {
			return *bad
		}
		xu := tc.unf(x)
		if xu.K != KTensor {
			return reject("head-constructor", "receive from %s, whose type is not a tensor", t.X)
		}
		if bad := fresh(g, prov, t.Y, t.Z); bad != nil {
			return *bad
		}
		g[t.Y], g[t.Z] = xu.L, xu.R
		return tc.check(g, t.Cont, prov, A, where)
	case TSel:
		if isProv(t.X, prov) {
			if Au.K != KPlus {
				return reject("head-constructor", "select on the provider, whose type is not an internal choice")
			}
			var bt *Ty
			for _, b := range Au.Br {
				if b.Label == t.Label {
					bt = b.T
				}
			}
			if bt == nil {
				return reject("label-set", "label %s is not offered", t.Label)
			}
			y, bad := tc.take(g, t.Y, prov)
			if bad != nil {
				return *bad
			}
			if !tc.eq(bt, y) {
				return reject("type-mismatch", "continuation of select does not have the branch type")
			}
			if bad := tc.empty(g); bad != nil {
				return *bad
			}
			return accept()
		}
		if isProv(t.Y, prov) {
			x, bad := tc.take(g, t.X, prov)
			if bad != nil {
				return *bad
			}
			xu := tc.unf(x)
			if xu.K != KWith {
				return reject("head-constructor", "select on %s, whose type is not an external choice", t.X)
			}
			var bt *Ty
			for _, b := range xu.Br {
				if b.Label == t.Label {
					bt = b.T
				}
			}
			if bt == nil {
				return reject("label-set", "label %s is not offered", t.Label)
			}
			if !tc.eq(bt, A) {
				return reject("type-mismatch", "branch type differs from the provider type")
			}
			if bad := tc.empty(g); bad != nil {
				return *bad
			}
			return accept()
		}
		return reject("self-misuse", "select must be on the provider or carry it as continuation")
	case TCase:
		provider := isProv(t.X, prov)
		var ct *Ty
		if provider {
			ct = Au
			if ct.K != KWith {
				return reject("head-constructor", "case on the provider, whose type is not an external choice")
			}
		} else {
			x, bad := tc.take(g, t.X, prov)
			if bad != nil {
				return *bad
			}
			ct = tc.unf(x)
			if ct.K != KPlus {
				return reject("head-constructor", "case on %s, whose type is not an internal choice", t.X)
			}
		}
		seen := map[string]bool{}
		for _, b := range t.Branches {
			if seen[b.Label] {
				return reject("label-set", "label %s matched twice", b.Label)
			}
			seen[b.Label] = true
			var bt *Ty
			for _, tb := range ct.Br {
				if tb.Label == b.Label {
					bt = tb.T
				}
			}
			if bt == nil {
				return reject("label-set", "label %s is not in the type", b.Label)
			}
			gb := g.copy()
			if bad := fresh(gb, prov, b.Var); bad != nil {
				return *bad
			}
			var v Verdict
			if provider {
				v = tc.check(gb, b.Body, b.Var, bt, where)
			} else {
				if isProv(b.Var, prov) {
					return reject("self-misuse", "a branch payload may not be called like the provider")
				}
				gb[b.Var] = bt
				v = tc.check(gb, b.Body, prov, A, where)
			}
			if v.Kind != "accept" {
				return v
			}
		}
		if len(seen) != len(ct.Br) {
			return reject("label-set", "case does not cover all labels")
		}
		return accept()
	case TNew:
		_, reused := g[t.X]
		if t.X == "self" {
			return unknown("cut binding self")
		}
		inBody := false
		for _, n := range freeNames(t.Body) {
			if n == t.X {
				inBody = true
			}
		}
		if !reused && inBody {
			return unknown("spawned body mentions the new name")
		}
		if reused && !inBody {
			return reject("scope", "name %s is rebound while still in scope", t.X)
		}
		if isProv(t.X, prov) {
			return unknown("cut rebinding the provider name")
		}
		var B *Ty
		g1 := ctx{}
		if t.Body.K == TCall {
			s, ok := tc.Sigs[t.Body.Fn]
			if !ok {
				return reject("signature", "function %s is undefined", t.Body.Fn)
			}
			B = s.Result
			args := t.Body.Args
			if len(args) == len(s.Params)+1 {
				if args[0] == t.X {
					return unknown("cut whose call passes the new name as explicit self")
				}
				if args[0] != "self" {
					return reject("signature", "first argument of %s must be self", t.Body.Fn)
				}
				args = args[1:]
			} else if len(args) != len(s.Params) {
				return reject("signature", "wrong number of arguments for %s", t.Body.Fn)
			}
			if hasPol(t.Body) {
				return unknown("explicit polarity annotation")
			}
			for i, a := range args {
				at, bad := tc.take(g, a, prov)
				if bad != nil {
					return *bad
				}
				g1[a] = at
				if !tc.eq(at, s.Params[i]) {
					return reject("type-mismatch", "argument %s of %s has the wrong type", a, t.Body.Fn)
				}
			}
			if t.Ty != nil {
				if err := tc.P.Env.CheckType(*t.Ty, tc.DM); err != "" {
					return unknown("annotation on a cut whose body is a call (ignored by Grits): ill-formed")
				}
				if !tc.eq(t.Ty.T, B) {
					return unknown("annotation on a cut whose body is a call differs from the callee's result type (ignored by Grits)")
				}
			}
		} else if t.Body.IsAxiom() {
			if reused && (t.Body.X == t.X) {
				return unknown("cut whose axiomatic body uses the rebound name as its subject")
			}
			if t.Ty == nil {
				return reject("missing-type", "cut with an axiomatic body needs a type annotation")
			}
			if hasPol(t.Body) {
				return unknown("explicit polarity annotation")
			}
			for _, n := range freeNames(t.Body) {
				at, bad := tc.take(g, n, prov)
				if bad != nil {
					return *bad
				}
				g1[n] = at
			}
			if err := tc.P.Env.CheckType(*t.Ty, tc.DM); err != "" {
				return reject("ill-formed-type", "annotation of %s: %s", t.X, string(err))
			}
			B = t.Ty.T
		} else {
			return unknown("cut whose body is neither an axiom nor a call")
		}
		for n, at := range g1 {
			if !GE(modeOf(at), modeOf(B)) {
				return reject("independence", "spawned process of mode %s uses %s of mode %s", modeOf(B), n, modeOf(at))
			}
		}
		if !GE(modeOf(B), modeOf(A)) {
			return reject("independence", "provider of mode %s depends on new channel %s of mode %s", modeOf(A), t.X, modeOf(B))
		}
		if t.Body.K != TCall {
			if v := tc.check(g1, t.Body, t.X, B, where); v.Kind != "accept" {
				return v
			}
		} else {
			tc.Judges = append(tc.Judges, Judgement{Where: where + " (call in cut)", Gamma: map[string]*Ty(g1), ProvMode: modeOf(B)})
		}
		g[t.X] = B
		return tc.check(g, t.Cont, prov, A, where)
	case TCall:
		s, ok := tc.Sigs[t.Fn]
		if !ok {
			return reject("signature", "function %s is undefined", t.Fn)
		}
		args := t.Args
		if len(args) == len(s.Params)+1 {
			if !isProv(args[0], prov) {
				return reject("signature", "first argument of %s must be self", t.Fn)
			}
			args = args[1:]
		} else if len(args) != len(s.Params) {
			return reject("signature", "wrong number of arguments for %s", t.Fn)
		}
		if !tc.eq(A, s.Result) {
			return reject("type-mismatch", "result type of %s differs from the provider type", t.Fn)
		}
		for i, a := range args {
			at, bad := tc.take(g, a, prov)
			if bad != nil {
				return *bad
			}
			if !tc.eq(at, s.Params[i]) {
				return reject("type-mismatch", "argument %s of %s has the wrong type", a, t.Fn)
			}
		}
		if bad := tc.empty(g); bad != nil {
			return *bad
		}
		return accept()
	case TClose:
		if !isProv(t.X, prov) {
			return reject("self-misuse", "close must be on the provider")
		}
		if Au.K != KUnit {
			return reject("head-constructor", "close on a provider whose type is not 1")
		}
		if bad := tc.empty(g); bad != nil {
			return *bad
		}
		return accept()
	case TWait:
		if isProv(t.X, prov) {
			return reject("self-misuse", "wait on the provider")
		}
		x, bad := tc.take(g, t.X, prov)
		if bad != nil {
			return *bad
		}
		if tc.unf(x).K != KUnit {
			return reject("head-constructor", "wait on %s, whose type is not 1", t.X)
		}
		return tc.check(g, t.Cont, prov, A, where)
	case TFwd:
		if isProv(t.Y, prov) || !isProv(t.X, prov) {
			return reject("self-misuse", "forward must be from a client to the provider")
		}
		y, bad := tc.take(g, t.Y, prov)
		if bad != nil {
			return *bad
		}
		if !tc.eq(A, y) {
			return reject("type-mismatch", "forwarded channel has a different type")
		}
		if bad := tc.empty(g); bad != nil {
			return *bad
		}
		return accept()
	case TSplit:
		if isProv(t.X, prov) {
			return reject("self-misuse", "split of the provider")
		}
		x, bad := tc.take(g, t.X, prov)
		if bad != nil {
			return *bad
		}
		if bad := fresh(g, prov, t.Y, t.Z); bad != nil {
			return *bad
		}
		if isProv(t.Y, prov) || isProv(t.Z, prov) {
			return unknown("split binds the provider name")
		}
		if !Contract(modeOf(x)) {
			return reject("contraction", "split of %s of mode %s", t.X, modeOf(x))
		}
		g[t.Y], g[t.Z] = x, x
		return tc.check(g, t.Cont, prov, A, where)
	case TDrop:
		if isProv(t.X, prov) {
			return reject("self-misuse", "drop of the provider")
		}
		x, bad := tc.take(g, t.X, prov)
		if bad != nil {
			return *bad
		}
		if !Weaken(modeOf(x)) {
			return reject("weakening", "drop of %s of mode %s", t.X, modeOf(x))
		}
		return tc.check(g, t.Cont, prov, A, where)
	case TCast:
		if isProv(t.X, prov) {
			if Au.K != KDown {
				return reject("head-constructor", "cast on the provider, whose type is not a downshift")
			}
			y, bad := tc.take(g, t.Y, prov)
			if bad != nil {
				return *bad
			}
			if modeOf(y) != Au.From || !tc.eq(Au.R, y) {
				return reject("type-mismatch", "continuation of cast has the wrong type or mode")
			}
			if bad := tc.empty(g); bad != nil {
				return *bad
			}
			return accept()
		}
		if isProv(t.Y, prov) {
			x, bad := tc.take(g, t.X, prov)
			if bad != nil {
				return *bad
			}
			xu := tc.unf(x)
			if xu.K != KUp {
				return reject("head-constructor", "cast to %s, whose type is not an upshift", t.X)
			}
			if modeOf(A) != xu.From || !tc.eq(xu.R, A) {
				return reject("type-mismatch", "provider type differs from the shifted type")
			}
			if bad := tc.empty(g); bad != nil {
				return *bad
			}
			return accept()
		}
		return reject("self-misuse", "cast must be on the provider or carry it as continuation")
	case TShift:
		if isProv(t.X, prov) {
			if Au.K != KUp {
				return reject("head-constructor", "shift on the provider, whose type is not an upshift")
			}
			if bad := fresh(g, prov, t.Y); bad != nil {
				return *bad
			}
			return tc.check(g, t.Cont, t.Y, Au.R, where)
		}
		if isProv(t.Y, prov) {
			return reject("self-misuse", "a shifted channel may not be called like the provider")
		}
		x, bad := tc.take(g, t.X, prov)
		if bad != nil {
			return *bad
		}
		xu := tc.unf(x)
		if xu.K != KDown {
			return reject("head-constructor", "shift from %s, whose type is not a downshift", t.X)
		}
		if bad := fresh(g, prov, t.Y); bad != nil {
			return *bad
		}
		g[t.Y] = xu.R
		return tc.check(g, t.Cont, prov, A, where)
	case TPrint:
		return tc.check(g, t.Cont, prov, A, where)
	}
	return unknown("unknown term kind")
}
