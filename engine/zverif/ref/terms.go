package ref

import (
	"fmt"
	"strings"
)

type TmKind int

const (
	TSend  TmKind = iota // send X<Y,Z>
	TRecv                // <Y,Z> <- recv X; Cont
	TSel                 // X.Label<Y>
	TCase                // case X (Branches)
	TNew                 // X [: Ty] <- new Body; Cont
	TCall                // Fn(Args)
	TClose               // close X
	TFwd                 // fwd X Y
	TSplit               // <Y,Z> <- split X; Cont
	TWait                // wait X; Cont
	TCast                // cast X<Y>
	TShift               // Y <- shift X; Cont
	TDrop                // drop X; Cont
	TPrint               // print Label; Cont
)

type TmBranch struct {
	Label string
	Var   string
	Body  *Tm
}

type Tm struct {
	K        TmKind
	X, Y, Z  string
	Pol      [3]string // explicit polarity ("+", "-", "") of X, Y, Z
	Label    string
	Ty       *AnnTy
	Body     *Tm
	Cont     *Tm
	Branches []TmBranch
	Fn       string
	Args     []string
	ArgPol   []string
}

func (t *Tm) Copy() *Tm {
	if t == nil {
		return nil
	}
	c := *t
	if t.Ty != nil {
		a := AnnTy{Ann: t.Ty.Ann, AnnStr: t.Ty.AnnStr, T: t.Ty.T.Copy()}
		c.Ty = &a
	}
	c.Body, c.Cont = t.Body.Copy(), t.Cont.Copy()
	c.Branches = nil
	for _, b := range t.Branches {
		c.Branches = append(c.Branches, TmBranch{b.Label, b.Var, b.Body.Copy()})
	}
	c.Args = append([]string{}, t.Args...)
	c.ArgPol = append([]string{}, t.ArgPol...)
	return &c
}

func pn(pol, n string) string { return pol + n }

func (t *Tm) String() string {
	switch t.K {
	case TSend:
		return fmt.Sprintf("send %s<%s, %s>", pn(t.Pol[0], t.X), pn(t.Pol[1], t.Y), pn(t.Pol[2], t.Z))
	case TRecv:
		return fmt.Sprintf("<%s, %s> <- recv %s; %s", pn(t.Pol[1], t.Y), pn(t.Pol[2], t.Z), pn(t.Pol[0], t.X), t.Cont)
	case TSel:
		return fmt.Sprintf("%s.%s<%s>", pn(t.Pol[0], t.X), t.Label, pn(t.Pol[1], t.Y))
	case TCase:
		var bs []string
		for _, b := range t.Branches {
			bs = append(bs, fmt.Sprintf("%s<%s> => %s", b.Label, b.Var, b.Body))
		}
		return fmt.Sprintf("case %s (%s)", pn(t.Pol[0], t.X), strings.Join(bs, " | "))
	case TNew:
		ann := ""
		if t.Ty != nil {
			ann = " : " + t.Ty.String()
		}
		body := t.Body.String()
		if t.Body.hasCont() {
			body = "(" + body + ")"
		}
		return fmt.Sprintf("%s%s <- new %s; %s", t.X, ann, body, t.Cont)
	case TCall:
		var as []string
		for i, a := range t.Args {
			p := ""
			if i < len(t.ArgPol) {
				p = t.ArgPol[i]
			}
			as = append(as, p+a)
		}
		return fmt.Sprintf("%s(%s)", t.Fn, strings.Join(as, ", "))
	case TClose:
		return "close " + pn(t.Pol[0], t.X)
	case TFwd:
		return fmt.Sprintf("fwd %s %s", pn(t.Pol[0], t.X), pn(t.Pol[1], t.Y))
	case TSplit:
		return fmt.Sprintf("<%s, %s> <- split %s; %s", pn(t.Pol[1], t.Y), pn(t.Pol[2], t.Z), pn(t.Pol[0], t.X), t.Cont)
	case TWait:
		return fmt.Sprintf("wait %s; %s", pn(t.Pol[0], t.X), t.Cont)
	case TCast:
		return fmt.Sprintf("cast %s<%s>", pn(t.Pol[0], t.X), pn(t.Pol[1], t.Y))
	case TShift:
		return fmt.Sprintf("%s <- shift %s; %s", pn(t.Pol[1], t.Y), pn(t.Pol[0], t.X), t.Cont)
	case TDrop:
		return fmt.Sprintf("drop %s; %s", pn(t.Pol[0], t.X), t.Cont)
	case TPrint:
		return fmt.Sprintf("print %s; %s", t.Label, t.Cont)
	}
	return "?"
}

func (t *Tm) hasCont() bool {
	switch t.K {
	case TSend, TSel, TClose, TFwd, TCall, TCast:
		return false
	}
	return true
}

// IsAxiom: a form without continuation (what Grits allows as the body of a cut, besides calls).
func (t *Tm) IsAxiom() bool { return !t.hasCont() }

type Param struct {
	Name string
	Ty   *AnnTy // may be nil
}

type FuncDef struct {
	Name     string
	Params   []Param
	Result   *AnnTy // may be nil
	Provider string // explicit provider name ("" = self)
	Body     *Tm
}

type ProcDef struct {
	Names []string
	Ty    *AnnTy // may be nil
	Body  *Tm
	Exec  string // exec f(): Body is the call
}

type Decl2 struct {
	Kind string // "type", "func", "proc", "assume", "exec"
	Idx  int
}

type Program struct {
	Env     Env
	Funcs   []FuncDef
	Procs   []ProcDef
	Assumed []Param
	Order   []Decl2 // textual order of the declarations
}

func annStr(a *AnnTy) string {
	if a == nil {
		return ""
	}
	return " : " + a.String()
}

func (p *Program) String() string {
	var b strings.Builder
	order := p.Order
	if len(order) == 0 {
		for i := range p.Env.Defs {
			order = append(order, Decl2{"type", i})
		}
		for i := range p.Funcs {
			order = append(order, Decl2{"func", i})
		}
		for i := range p.Assumed {
			order = append(order, Decl2{"assume", i})
		}
		for i := range p.Procs {
			order = append(order, Decl2{"proc", i})
		}
	}
	for _, d := range order {
		switch d.Kind {
		case "type":
			t := p.Env.Defs[d.Idx]
			fmt.Fprintf(&b, "type %s = %s\n", t.Name, t.Body.String())
		case "func":
			f := p.Funcs[d.Idx]
			var ps []string
			for _, q := range f.Params {
				ps = append(ps, q.Name+annStr(q.Ty))
			}
			if f.Provider != "" {
				head := f.Provider + annStr(f.Result)
				if len(ps) > 0 {
					head += ", " + strings.Join(ps, ", ")
				}
				fmt.Fprintf(&b, "let %s[%s] = %s\n", f.Name, head, f.Body)
			} else {
				fmt.Fprintf(&b, "let %s(%s)%s = %s\n", f.Name, strings.Join(ps, ", "), annStr(f.Result), f.Body)
			}
		case "assume":
			a := p.Assumed[d.Idx]
			fmt.Fprintf(&b, "assuming %s%s\n", a.Name, annStr(a.Ty))
		case "proc":
			q := p.Procs[d.Idx]
			if q.Exec != "" {
				fmt.Fprintf(&b, "exec %s()\n", q.Exec)
			} else {
				fmt.Fprintf(&b, "prc[%s]%s = %s\n", strings.Join(q.Names, ", "), annStr(q.Ty), q.Body)
			}
		}
	}
	return b.String()
}

func (p *Program) Copy() *Program {
	c := &Program{Order: append([]Decl2{}, p.Order...)}
	for _, d := range p.Env.Defs {
		c.Env.Defs = append(c.Env.Defs, TypeDef{Name: d.Name, Body: AnnTy{Ann: d.Body.Ann, AnnStr: d.Body.AnnStr, T: d.Body.T.Copy()}})
	}
	cpA := func(a *AnnTy) *AnnTy {
		if a == nil {
			return nil
		}
		return &AnnTy{Ann: a.Ann, AnnStr: a.AnnStr, T: a.T.Copy()}
	}
	for _, f := range p.Funcs {
		nf := FuncDef{Name: f.Name, Result: cpA(f.Result), Provider: f.Provider, Body: f.Body.Copy()}
		for _, q := range f.Params {
			nf.Params = append(nf.Params, Param{q.Name, cpA(q.Ty)})
		}
		c.Funcs = append(c.Funcs, nf)
	}
	for _, q := range p.Procs {
		c.Procs = append(c.Procs, ProcDef{Names: append([]string{}, q.Names...), Ty: cpA(q.Ty), Body: q.Body.Copy(), Exec: q.Exec})
	}
	for _, a := range p.Assumed {
		c.Assumed = append(c.Assumed, Param{a.Name, cpA(a.Ty)})
	}
	return c
}

// ---------- parser (independent recursive descent over Tokenize) ----------

type pstate struct {
	toks []Tok
	pos  int
	err  string
}

func (s *pstate) peek() string {
	if s.pos < len(s.toks) {
		return s.toks[s.pos].Kind
	}
	return "EOF"
}
func (s *pstate) peekAt(k int) string {
	if s.pos+k < len(s.toks) {
		return s.toks[s.pos+k].Kind
	}
	return "EOF"
}
func (s *pstate) next() Tok {
	if s.pos < len(s.toks) {
		s.pos++
		return s.toks[s.pos-1]
	}
	return Tok{"EOF", ""}
}
func (s *pstate) expect(k string) Tok {
	t := s.next()
	if t.Kind != k && s.err == "" {
		s.err = fmt.Sprintf("expected %s, found %s %q at token %d", k, t.Kind, t.Text, s.pos-1)
	}
	return t
}

// ParseProgram parses a text into the reference AST (the statement forms only; a bare expression is not supported).
func ParseProgram(text string) (*Program, error) {
	toks, ok := Tokenize(text)
	if !ok {
		return nil, fmt.Errorf("illegal character")
	}
	s := &pstate{toks: toks}
	p := &Program{}
	for s.pos < len(s.toks) && s.err == "" {
		switch s.peek() {
		case "TYPE":
			s.next()
			n := s.expect("LABEL").Text
			s.expect("EQUALS")
			a := s.annType()
			p.Env.Defs = append(p.Env.Defs, TypeDef{Name: n, Body: a})
			p.Order = append(p.Order, Decl2{"type", len(p.Env.Defs) - 1})
		case "LET":
			s.next()
			f := FuncDef{Name: s.expect("LABEL").Text}
			if s.peek() == "LSBRACK" {
				s.next()
				f.Provider = s.expect("LABEL").Text
				if s.peek() == "COLON" {
					s.next()
					a := s.annType()
					f.Result = &a
				}
				if s.peek() == "COMMA" {
					s.next()
					f.Params = s.params("RSBRACK")
				}
				s.expect("RSBRACK")
			} else {
				s.expect("LPAREN")
				f.Params = s.params("RPAREN")
				s.expect("RPAREN")
				if s.peek() == "COLON" {
					s.next()
					a := s.annType()
					f.Result = &a
				}
			}
			s.expect("EQUALS")
			f.Body = s.term()
			p.Funcs = append(p.Funcs, f)
			p.Order = append(p.Order, Decl2{"func", len(p.Funcs) - 1})
		case "PRC":
			s.next()
			s.expect("LSBRACK")
			q := ProcDef{}
			for {
				q.Names = append(q.Names, s.name())
				if s.peek() != "COMMA" {
					break
				}
				s.next()
			}
			s.expect("RSBRACK")
			if s.peek() == "COLON" {
				s.next()
				a := s.annType()
				q.Ty = &a
			}
			s.expect("EQUALS")
			q.Body = s.term()
			p.Procs = append(p.Procs, q)
			p.Order = append(p.Order, Decl2{"proc", len(p.Procs) - 1})
		case "ASSUMING":
			s.next()
			for _, a := range s.params("") {
				p.Assumed = append(p.Assumed, a)
				p.Order = append(p.Order, Decl2{"assume", len(p.Assumed) - 1})
			}
		case "EXEC":
			s.next()
			fn := s.expect("LABEL").Text
			s.expect("LPAREN")
			s.expect("RPAREN")
			p.Procs = append(p.Procs, ProcDef{Exec: fn, Body: &Tm{K: TCall, Fn: fn}})
			p.Order = append(p.Order, Decl2{"proc", len(p.Procs) - 1})
		default:
			s.err = "unexpected token " + s.peek()
		}
	}
	if s.err != "" {
		return nil, fmt.Errorf("%s", s.err)
	}
	return p, nil
}

func (s *pstate) params(closer string) []Param {
	var out []Param
	if closer != "" && s.peek() == closer {
		return out
	}
	for {
		p := Param{Name: s.expect("LABEL").Text}
		if s.peek() == "COLON" {
			s.next()
			a := s.annType()
			p.Ty = &a
		}
		out = append(out, p)
		if s.peek() != "COMMA" {
			break
		}
		s.next()
	}
	return out
}

func (s *pstate) name() string {
	n, _ := s.pname()
	return n
}

func (s *pstate) pname() (string, string) {
	pol := ""
	if s.peek() == "PLUS" || s.peek() == "MINUS" {
		pol = s.next().Text
	}
	t := s.next()
	if t.Kind == "SELF" {
		return "self", pol
	}
	if t.Kind != "LABEL" && s.err == "" {
		s.err = fmt.Sprintf("expected a name, found %s %q", t.Kind, t.Text)
	}
	return t.Text, pol
}

// annType: [modality] type_init. A leading LABEL is a modality iff it is followed by the start of a type_init
// (LABEL, UNIT, PLUS, AMPERSAND, LPAREN) and not by a shift arrow.
func (s *pstate) annType() AnnTy {
	a := AnnTy{}
	if s.peek() == "LABEL" {
		switch s.peekAt(1) {
		case "LABEL", "UNIT", "PLUS", "AMPERSAND", "LPAREN":
			m := s.next().Text
			a.Ann = ParseMode(m)
			a.AnnStr = m
			if a.Ann != MInvalid {
				a.AnnStr = ""
			}
		}
	}
	a.T = s.typeInit()
	return a
}

// typeInit: right associative binary operators; shifts extend to the right as far as possible.
func (s *pstate) typeInit() *Ty {
	left := s.typeAtom()
	switch s.peek() {
	case "TIMES":
		s.next()
		return Tensor(left, s.typeInit())
	case "LOLLI":
		s.next()
		return Lolli(left, s.typeInit())
	}
	return left
}

func (s *pstate) typeAtom() *Ty {
	switch s.peek() {
	case "UNIT":
		s.next()
		return Unit()
	case "LPAREN":
		s.next()
		t := s.typeInit()
		s.expect("RPAREN")
		return t
	case "PLUS", "AMPERSAND":
		k := s.next().Kind
		s.expect("LCBRACK")
		var br []Branch
		for {
			l := s.expect("LABEL").Text
			s.expect("COLON")
			br = append(br, Branch{l, s.typeInit()})
			if s.peek() != "COMMA" {
				break
			}
			s.next()
		}
		s.expect("RCBRACK")
		if k == "PLUS" {
			return Plus(br...)
		}
		return With(br...)
	case "LABEL":
		l := s.next().Text
		if s.peek() == "UP_ARROW" || s.peek() == "DOWN_ARROW" {
			up := s.next().Kind == "UP_ARROW"
			to := s.expect("LABEL").Text
			c := s.typeInit()
			t := &Ty{K: KDown, From: ParseMode(l), To: ParseMode(to), R: c, ModeStr: [2]string{l, to}}
			if up {
				t.K = KUp
			}
			return t
		}
		return Name(l)
	}
	if s.err == "" {
		s.err = "expected a type, found " + s.peek()
	}
	s.next()
	return Unit()
}

func (s *pstate) term() *Tm {
	switch s.peek() {
	case "SEND":
		s.next()
		t := &Tm{K: TSend}
		t.X, t.Pol[0] = s.pname()
		s.expect("LANGLE")
		t.Y, t.Pol[1] = s.pname()
		s.expect("COMMA")
		t.Z, t.Pol[2] = s.pname()
		s.expect("RANGLE")
		return t
	case "LANGLE":
		s.next()
		t := &Tm{}
		t.Y, t.Pol[1] = s.pname()
		s.expect("COMMA")
		t.Z, t.Pol[2] = s.pname()
		s.expect("RANGLE")
		s.expect("LEFT_ARROW")
		switch s.next().Kind {
		case "RECEIVE":
			t.K = TRecv
		case "SPLIT":
			t.K = TSplit
		default:
			if s.err == "" {
				s.err = "expected recv or split"
			}
		}
		t.X, t.Pol[0] = s.pname()
		s.expect("SEQUENCE")
		t.Cont = s.term()
		return t
	case "CASE":
		s.next()
		t := &Tm{K: TCase}
		t.X, t.Pol[0] = s.pname()
		s.expect("LPAREN")
		for s.peek() == "LABEL" {
			b := TmBranch{Label: s.next().Text}
			s.expect("LANGLE")
			b.Var = s.name()
			s.expect("RANGLE")
			s.expect("RIGHT_ARROW")
			b.Body = s.term()
			t.Branches = append(t.Branches, b)
			if s.peek() != "PIPE" {
				break
			}
			s.next()
		}
		s.expect("RPAREN")
		return t
	case "CLOSE":
		s.next()
		t := &Tm{K: TClose}
		t.X, t.Pol[0] = s.pname()
		return t
	case "FORWARD":
		s.next()
		t := &Tm{K: TFwd}
		t.X, t.Pol[0] = s.pname()
		t.Y, t.Pol[1] = s.pname()
		return t
	case "WAIT", "DROP":
		k := s.next().Kind
		t := &Tm{K: TWait}
		if k == "DROP" {
			t.K = TDrop
		}
		t.X, t.Pol[0] = s.pname()
		s.expect("SEQUENCE")
		t.Cont = s.term()
		return t
	case "CAST":
		s.next()
		t := &Tm{K: TCast}
		t.X, t.Pol[0] = s.pname()
		s.expect("LANGLE")
		t.Y, t.Pol[1] = s.pname()
		s.expect("RANGLE")
		return t
	case "PRINT":
		s.next()
		t := &Tm{K: TPrint, Label: s.expect("LABEL").Text}
		s.expect("SEQUENCE")
		t.Cont = s.term()
		return t
	case "LPAREN":
		s.next()
		t := s.term()
		s.expect("RPAREN")
		return t
	case "LABEL":
		// call f(...), typed cut x : T <- new, or a name-led form
		if s.peekAt(1) == "LPAREN" {
			t := &Tm{K: TCall, Fn: s.next().Text}
			s.next()
			for s.peek() != "RPAREN" && s.err == "" {
				n, pol := s.pname()
				t.Args = append(t.Args, n)
				t.ArgPol = append(t.ArgPol, pol)
				if s.peek() != "COMMA" {
					break
				}
				s.next()
			}
			s.expect("RPAREN")
			return t
		}
		if s.peekAt(1) == "COLON" {
			t := &Tm{K: TNew, X: s.next().Text}
			s.next()
			a := s.annType()
			t.Ty = &a
			s.expect("LEFT_ARROW")
			s.expect("NEW")
			t.Body = s.term()
			s.expect("SEQUENCE")
			t.Cont = s.term()
			return t
		}
	}
	// name-led: X.l<Y> | X <- new B; C | Y <- shift X; C
	n, pol := s.pname()
	switch s.peek() {
	case "DOT":
		s.next()
		t := &Tm{K: TSel, X: n, Label: s.expect("LABEL").Text}
		t.Pol[0] = pol
		s.expect("LANGLE")
		t.Y, t.Pol[1] = s.pname()
		s.expect("RANGLE")
		return t
	case "LEFT_ARROW":
		s.next()
		switch s.next().Kind {
		case "NEW":
			t := &Tm{K: TNew, X: n}
			t.Body = s.term()
			s.expect("SEQUENCE")
			t.Cont = s.term()
			return t
		case "SHIFT":
			t := &Tm{K: TShift, Y: n}
			t.Pol[1] = pol
			t.X, t.Pol[0] = s.pname()
			s.expect("SEQUENCE")
			t.Cont = s.term()
			return t
		}
	}
	if s.err == "" {
		s.err = "cannot parse term at token " + fmt.Sprint(s.pos)
	}
	return &Tm{K: TClose, X: "self"}
}
