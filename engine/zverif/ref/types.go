// Package ref contains the independent reference models (no import of Grits): modes, types
// (well-formedness, mode inference, equi-recursive equality), terms, a reference typechecker,
// a reference small-step semantics and a reference grammar.
package ref

import (
	"fmt"
	"sort"
	"strings"
)

// ---------- R-mode ----------

type Mode int

const (
	MUnset Mode = iota
	MRep
	MMul
	MAff
	MLin
	MInvalid
)

var Modes4 = []Mode{MRep, MMul, MAff, MLin}

func (m Mode) String() string {
	return [...]string{"unset", "rep", "mul", "aff", "lin", "invalid"}[m]
}

// GE is the adjoint preorder m >= k ("m can be down-shifted to k"): rep on top, lin at the
// bottom, aff and mul incomparable. Written down as a table, not computed.
var geTable = map[Mode]map[Mode]bool{
	MRep: {MRep: true, MMul: true, MAff: true, MLin: true},
	MMul: {MRep: false, MMul: true, MAff: false, MLin: true},
	MAff: {MRep: false, MMul: false, MAff: true, MLin: true},
	MLin: {MRep: false, MMul: false, MAff: false, MLin: true},
}

func GE(m, k Mode) bool { return geTable[m][k] }

func Weaken(m Mode) bool   { return m == MRep || m == MAff }
func Contract(m Mode) bool { return m == MRep || m == MMul }

// Spellings documented in the README for each mode.
var Spellings = map[Mode][]string{
	MRep: {"r", "rep", "replicable"},
	MMul: {"m", "mul", "multicast"},
	MAff: {"a", "aff", "affine"},
	MLin: {"l", "lin", "linear"},
}

func ParseMode(s string) Mode {
	s = strings.ToLower(s)
	for m, sp := range Spellings {
		for _, x := range sp {
			if x == s {
				return m
			}
		}
	}
	return MInvalid
}

// ---------- types ----------

type Kind int

const (
	KName Kind = iota
	KUnit
	KTensor
	KLolli
	KPlus
	KWith
	KUp
	KDown
)

type Branch struct {
	Label string
	T     *Ty
}

type Ty struct {
	K        Kind
	Name     string
	L, R     *Ty // binary: L, R; shifts: R is the continuation
	Br       []Branch
	From, To Mode
	ModeStr  [2]string // original spelling of shift modes (may be invalid)
	M        Mode      // elaborated mode of this node (filled by Elaborate)
}

// AnnTy is a type as written: optional head annotation + type.
type AnnTy struct {
	Ann    Mode   // MUnset if none
	AnnStr string // spelling (may be an invalid mode name)
	T      *Ty
}

func Unit() *Ty               { return &Ty{K: KUnit} }
func Name(n string) *Ty       { return &Ty{K: KName, Name: n} }
func Tensor(a, b *Ty) *Ty     { return &Ty{K: KTensor, L: a, R: b} }
func Lolli(a, b *Ty) *Ty      { return &Ty{K: KLolli, L: a, R: b} }
func Plus(br ...Branch) *Ty   { return &Ty{K: KPlus, Br: br} }
func With(br ...Branch) *Ty   { return &Ty{K: KWith, Br: br} }
func Up(f, t Mode, c *Ty) *Ty { return &Ty{K: KUp, From: f, To: t, R: c} }
func Down(f, t Mode, c *Ty) *Ty {
	return &Ty{K: KDown, From: f, To: t, R: c}
}

func (t *Ty) Copy() *Ty {
	if t == nil {
		return nil
	}
	c := *t
	c.L, c.R = t.L.Copy(), t.R.Copy()
	c.Br = nil
	for _, b := range t.Br {
		c.Br = append(c.Br, Branch{b.Label, b.T.Copy()})
	}
	return &c
}

func modeSpell(m Mode, s string) string {
	if s != "" {
		return s
	}
	return m.String()
}

// String prints the type in Grits concrete syntax (fully disambiguated with brackets).
func (t *Ty) String() string {
	switch t.K {
	case KName:
		return t.Name
	case KUnit:
		return "1"
	case KTensor, KLolli:
		op := " * "
		if t.K == KLolli {
			op = " -* "
		}
		l := t.L.String()
		if t.L.K == KTensor || t.L.K == KLolli || t.L.K == KUp || t.L.K == KDown {
			l = "(" + l + ")"
		}
		return l + op + t.R.String()
	case KPlus, KWith:
		var bs []string
		for _, b := range t.Br {
			bs = append(bs, b.Label+" : "+b.T.String())
		}
		s := "+{"
		if t.K == KWith {
			s = "&{"
		}
		return s + strings.Join(bs, ", ") + "}"
	case KUp:
		return modeSpell(t.From, t.ModeStr[0]) + " /\\ " + modeSpell(t.To, t.ModeStr[1]) + " " + t.R.String()
	case KDown:
		return modeSpell(t.From, t.ModeStr[0]) + " \\/ " + modeSpell(t.To, t.ModeStr[1]) + " " + t.R.String()
	}
	return "?"
}

func (a AnnTy) String() string {
	if a.Ann == MUnset && a.AnnStr == "" {
		return a.T.String()
	}
	s := a.T.String()
	// an annotation applies to a session_type_init; a leading name would be read as a modality
	return modeSpell(a.Ann, a.AnnStr) + " " + s
}

// Structural key including elaborated modes (used for memo tables and comparisons).
func (t *Ty) Key() string {
	switch t.K {
	case KName:
		return fmt.Sprintf("N%s@%d", t.Name, t.M)
	case KUnit:
		return fmt.Sprintf("1@%d", t.M)
	case KTensor:
		return fmt.Sprintf("(%s*%s)@%d", t.L.Key(), t.R.Key(), t.M)
	case KLolli:
		return fmt.Sprintf("(%s-o%s)@%d", t.L.Key(), t.R.Key(), t.M)
	case KPlus, KWith:
		var bs []string
		for _, b := range t.Br {
			bs = append(bs, b.Label+":"+b.T.Key())
		}
		sort.Strings(bs)
		c := "+"
		if t.K == KWith {
			c = "&"
		}
		return fmt.Sprintf("%s{%s}@%d", c, strings.Join(bs, ","), t.M)
	case KUp:
		return fmt.Sprintf("up%d,%d(%s)", t.From, t.To, t.R.Key())
	case KDown:
		return fmt.Sprintf("dn%d,%d(%s)", t.From, t.To, t.R.Key())
	}
	return "?"
}

// ---------- environments ----------

type TypeDef struct {
	Name string
	Body AnnTy
	Mode Mode // elaborated head mode
}

type Env struct {
	Defs []TypeDef
}

func (e *Env) Lookup(n string) *TypeDef {
	for i := range e.Defs {
		if e.Defs[i].Name == n {
			return &e.Defs[i]
		}
	}
	return nil
}

func (e *Env) String() string {
	var b strings.Builder
	for _, d := range e.Defs {
		fmt.Fprintf(&b, "type %s = %s\n", d.Name, d.Body.String())
	}
	return b.String()
}

// ---------- R-infer + R-wf ----------

// headMode computes the mode an annotated type gets: the annotation if present, else the
// mode fixed by a component of its head region (a shift or a named type), else replicable.
// conflict is true if two components fix different modes.
func (e *Env) headMode(a AnnTy, defMode map[string]Mode) (m Mode, conflict bool) {
	if a.Ann != MUnset {
		return a.Ann, false
	}
	if a.AnnStr != "" {
		return MInvalid, false
	}
	var fixed []Mode
	var walk func(t *Ty)
	walk = func(t *Ty) {
		switch t.K {
		case KName:
			if dm, ok := defMode[t.Name]; ok && dm != MUnset {
				fixed = append(fixed, dm)
			}
		case KTensor, KLolli:
			walk(t.L)
			walk(t.R)
		case KPlus, KWith:
			for _, b := range t.Br {
				walk(b.T)
			}
		case KUp, KDown:
			fixed = append(fixed, t.To)
		}
	}
	walk(a.T)
	if len(fixed) == 0 {
		return MUnset, false
	}
	for _, f := range fixed[1:] {
		if f != fixed[0] {
			return fixed[0], true
		}
	}
	return fixed[0], false
}

// InferDefModes computes the head mode of every definition (least fixpoint; unconstrained => rep).
// The second result lists definitions whose components fix conflicting modes.
func (e *Env) InferDefModes() (map[string]Mode, map[string]bool) {
	dm := map[string]Mode{}
	conflicts := map[string]bool{}
	for _, d := range e.Defs {
		if _, dup := dm[d.Name]; !dup {
			dm[d.Name] = MUnset
		}
	}
	for iter := 0; iter < len(e.Defs)+2; iter++ {
		changed := false
		seen := map[string]bool{}
		for _, d := range e.Defs {
			if seen[d.Name] {
				continue // only the first definition of a duplicated name counts (such envs are ill-formed anyway)
			}
			seen[d.Name] = true
			m, c := e.headMode(d.Body, dm)
			if c {
				conflicts[d.Name] = true
			}
			if m != MUnset && dm[d.Name] != m {
				dm[d.Name] = m
				changed = true
			}
		}
		if !changed {
			break
		}
	}
	for n, m := range dm {
		if m == MUnset {
			dm[n] = MRep
		}
	}
	return dm, conflicts
}

// assign fills t.M for every node given the mode of the region t starts in.
func assign(t *Ty, region Mode, dm map[string]Mode) {
	switch t.K {
	case KName, KUnit:
		t.M = region
	case KTensor, KLolli:
		t.M = region
		assign(t.L, region, dm)
		assign(t.R, region, dm)
	case KPlus, KWith:
		t.M = region
		for _, b := range t.Br {
			assign(b.T, region, dm)
		}
	case KUp, KDown:
		t.M = t.To
		assign(t.R, t.From, dm)
	}
}

// Elaborate computes definition modes and node modes for the whole environment.
func (e *Env) Elaborate() (dm map[string]Mode, conflicts map[string]bool) {
	dm, conflicts = e.InferDefModes()
	for i := range e.Defs {
		d := &e.Defs[i]
		d.Mode = dm[d.Name]
		assign(d.Body.T, d.Mode, dm)
	}
	return
}

// ElaborateType elaborates a stand-alone annotated type (signature, annotation) against the env.
// It returns the head mode and whether components conflict.
func (e *Env) ElaborateType(a AnnTy, dm map[string]Mode) (Mode, bool) {
	m, c := e.headMode(a, dm)
	if m == MUnset {
		m = MRep
	}
	assign(a.T, m, dm)
	return m, c
}

// WFError describes why an environment / type is ill-formed ("" = well-formed).
type WFError string

// checkModes verifies mode discipline of an elaborated type whose region mode is 'region'.
func (e *Env) checkModes(t *Ty, region Mode, dm map[string]Mode) WFError {
	switch t.K {
	case KName:
		d, ok := dm[t.Name]
		if !ok {
			return WFError("undefined type name " + t.Name)
		}
		if d != region {
			return WFError(fmt.Sprintf("name %s has mode %s but is used at mode %s", t.Name, d, region))
		}
	case KUnit:
	case KTensor, KLolli:
		if err := e.checkModes(t.L, region, dm); err != "" {
			return err
		}
		return e.checkModes(t.R, region, dm)
	case KPlus, KWith:
		seen := map[string]bool{}
		for _, b := range t.Br {
			if seen[b.Label] {
				return WFError("duplicate label " + b.Label)
			}
			seen[b.Label] = true
			if err := e.checkModes(b.T, region, dm); err != "" {
				return err
			}
		}
	case KUp, KDown:
		if t.From == MInvalid || t.To == MInvalid || t.From == MUnset || t.To == MUnset {
			return "unknown mode in shift"
		}
		if t.To != region {
			return WFError(fmt.Sprintf("shift to mode %s inside a type of mode %s", t.To, region))
		}
		if t.K == KUp && !GE(t.To, t.From) {
			return WFError(fmt.Sprintf("illegal upshift %s /\\ %s", t.From, t.To))
		}
		if t.K == KDown && !GE(t.From, t.To) {
			return WFError(fmt.Sprintf("illegal downshift %s \\/ %s", t.From, t.To))
		}
		return e.checkModes(t.R, t.From, dm)
	}
	return ""
}

// CheckType: well-formedness of a stand-alone annotated type against a (well-formed) environment.
func (e *Env) CheckType(a AnnTy, dm map[string]Mode) WFError {
	if a.Ann == MInvalid || (a.Ann == MUnset && a.AnnStr != "") {
		return "unknown mode annotation"
	}
	if err := e.checkNames(a.T); err != "" {
		return err
	}
	m, conflict := e.ElaborateType(a, dm)
	if conflict {
		return "components fix conflicting modes"
	}
	return e.checkModes(a.T, m, dm)
}

func (e *Env) checkNames(t *Ty) WFError {
	switch t.K {
	case KName:
		if e.Lookup(t.Name) == nil {
			return WFError("undefined type name " + t.Name)
		}
	case KTensor, KLolli:
		if err := e.checkNames(t.L); err != "" {
			return err
		}
		return e.checkNames(t.R)
	case KPlus, KWith:
		for _, b := range t.Br {
			if err := e.checkNames(b.T); err != "" {
				return err
			}
		}
	case KUp, KDown:
		return e.checkNames(t.R)
	}
	return ""
}

// WellFormed is R-wf for a set of definitions (it elaborates the environment as a side effect).
func (e *Env) WellFormed() WFError {
	seen := map[string]bool{}
	for _, d := range e.Defs {
		if seen[d.Name] {
			return WFError("type " + d.Name + " defined more than once")
		}
		seen[d.Name] = true
	}
	for _, d := range e.Defs {
		if err := e.checkNames(d.Body.T); err != "" {
			return err
		}
	}
	// contractivity: no cycle through definitions whose body is a bare name
	for _, d := range e.Defs {
		visited := map[string]bool{}
		cur := d
		for cur.Body.T.K == KName {
			if visited[cur.Name] {
				return WFError("definition of " + d.Name + " is not contractive")
			}
			visited[cur.Name] = true
			nx := e.Lookup(cur.Body.T.Name)
			if nx == nil {
				break
			}
			cur = *nx
		}
	}
	for _, d := range e.Defs {
		if d.Body.Ann == MInvalid || (d.Body.Ann == MUnset && d.Body.AnnStr != "") {
			return "unknown mode annotation"
		}
	}
	dm, conflicts := e.Elaborate()
	for n := range conflicts {
		return WFError("components of " + n + " fix conflicting modes")
	}
	for _, d := range e.Defs {
		if err := e.checkModes(d.Body.T, d.Mode, dm); err != "" {
			return WFError(d.Name + ": " + string(err))
		}
	}
	return ""
}

// ---------- R-eq ----------

// Unfold resolves names at the head of an elaborated type (environment must be contractive).
func (e *Env) Unfold(t *Ty) *Ty {
	for i := 0; t != nil && t.K == KName && i <= len(e.Defs)+1; i++ {
		d := e.Lookup(t.Name)
		if d == nil {
			return nil
		}
		t = d.Body.T
	}
	return t
}

// Equal decides equi-recursive type equality (greatest fixpoint) on elaborated types.
func (e *Env) Equal(a, b *Ty) bool {
	return e.equal(a, b, map[string]bool{})
}

func (e *Env) equal(a, b *Ty, assumed map[string]bool) bool {
	// the mode of a name occurrence is part of the type
	if a.K == KName || b.K == KName {
		if a.M != b.M {
			return false
		}
		k := a.Key() + "|" + b.Key()
		if assumed[k] {
			return true
		}
		assumed[k] = true
	}
	a, b = e.Unfold(a), e.Unfold(b)
	if a == nil || b == nil {
		return false
	}
	if a.K != b.K {
		return false
	}
	switch a.K {
	case KUnit:
		return a.M == b.M
	case KTensor, KLolli:
		return a.M == b.M && e.equal(a.L, b.L, assumed) && e.equal(a.R, b.R, assumed)
	case KPlus, KWith:
		if a.M != b.M || len(a.Br) != len(b.Br) {
			return false
		}
		for _, ba := range a.Br {
			found := false
			for _, bb := range b.Br {
				if ba.Label == bb.Label {
					found = true
					if !e.equal(ba.T, bb.T, assumed) {
						return false
					}
				}
			}
			if !found {
				return false
			}
		}
		return true
	case KUp, KDown:
		return a.From == b.From && a.To == b.To && e.equal(a.R, b.R, assumed)
	}
	return false
}
