package ref

// R-sem: reference small-step semantics of SAX processes over pure values (no Grits code).
// Axioms are messages: a process whose term is a positive axiom on self (send self, self.l,
// close self, cast self) is a passive message object that its client consumes; a negative axiom
// (send x<a,self>, x.l<self>, cast x<self>) is a passive message addressed to the provider of x,
// which continues as provider of the sender's channels. Every channel has exactly one provider
// object; an object may provide several channels (after split / duplication) or none (dropped).
// An object providing several channels may duplicate at any step and must have exactly one
// before it communicates on self or is consumed.

import (
	"fmt"
	"sort"
	"strings"
)

type sproc struct {
	provs []int
	t     *Tm
	env   map[string]int
	self  string // name that refers to the provider besides "self"
}

type Config struct {
	procs  []*sproc
	next   int
	prints []string
}

type Sem struct {
	P       *Program
	funcs   map[string]*FuncDef
	Budget  int // max states
	States  int
	Steps   int
	Over    bool
	memo    map[string]bool
	finals  map[string]bool
	guide   []string
	guideOK bool
}

func NewSem(p *Program) *Sem {
	s := &Sem{P: p, funcs: map[string]*FuncDef{}, Budget: 150000}
	for i := range p.Funcs {
		s.funcs[p.Funcs[i].Name] = &p.Funcs[i]
	}
	return s
}

func (s *Sem) initial() *Config {
	c := &Config{next: 1}
	root := map[string]int{}
	execN := 0
	for _, q := range s.P.Procs {
		names := q.Names
		if q.Exec != "" {
			execN++
			names = []string{fmt.Sprintf("exec%d", execN)}
		}
		for _, n := range names {
			root[n] = c.next
			c.next++
		}
	}
	execN = 0
	for _, q := range s.P.Procs {
		names := q.Names
		if q.Exec != "" {
			execN++
			names = []string{fmt.Sprintf("exec%d", execN)}
		}
		p := &sproc{t: q.Body, env: map[string]int{}}
		for _, n := range names {
			p.provs = append(p.provs, root[n])
		}
		for _, n := range freeNames(q.Body) {
			if ch, ok := root[n]; ok {
				p.env[n] = ch
			}
		}
		if len(names) == 1 {
			p.self = names[0]
		}
		c.procs = append(c.procs, p)
	}
	return c
}

func (p *sproc) isSelf(n string) bool { return n == "self" || (p.self != "" && n == p.self) }

func (p *sproc) ch(n string) (int, bool) {
	c, ok := p.env[n]
	return c, ok
}

func copyEnv(e map[string]int) map[string]int {
	c := make(map[string]int, len(e)+2)
	for k, v := range e {
		c[k] = v
	}
	return c
}

func (c *Config) clone() *Config {
	n := &Config{next: c.next, prints: append([]string{}, c.prints...)}
	for _, p := range c.procs {
		q := *p
		q.provs = append([]int{}, p.provs...)
		n.procs = append(n.procs, &q) // env maps are copy-on-write (never mutated in place)
	}
	return n
}

// provider returns the index of the object providing channel ch (-1 if none).
func (c *Config) provider(ch int) int {
	for i, p := range c.procs {
		for _, x := range p.provs {
			if x == ch {
				return i
			}
		}
	}
	return -1
}

func (c *Config) remove(i int) { c.procs = append(c.procs[:i], c.procs[i+1:]...) }

// replaceProv replaces channel old in its provider's list by the channels nw (nil = dropped).
func (c *Config) replaceProv(old int, nw []int) {
	i := c.provider(old)
	if i < 0 {
		return
	}
	p := c.procs[i]
	var out []int
	for _, x := range p.provs {
		if x == old {
			out = append(out, nw...)
		} else {
			out = append(out, x)
		}
	}
	p.provs = out
}

func posAxiom(p *sproc) bool {
	switch p.t.K {
	case TSend, TSel, TCast:
		return p.isSelf(p.t.X)
	case TClose:
		return true
	}
	return false
}

func negAxiom(p *sproc) bool {
	switch p.t.K {
	case TSend:
		return !p.isSelf(p.t.X) && p.isSelf(p.t.Z)
	case TSel, TCast:
		return !p.isSelf(p.t.X) && p.isSelf(p.t.Y)
	}
	return false
}

// freeChans: channels the object refers to (through free variables of its term).
func (p *sproc) freeChans() []int {
	var out []int
	seen := map[int]bool{}
	for _, n := range freeNames(p.t) {
		if p.isSelf(n) {
			continue
		}
		if ch, ok := p.env[n]; ok && !seen[ch] {
			seen[ch] = true
			out = append(out, ch)
		}
	}
	return out
}

type succ struct {
	c     *Config
	print string
}

// successors enumerates all transitions of c. stuck reports objects that can never move (for diagnostics).
func (s *Sem) successors(c *Config) []succ {
	var out []succ
	for i, p := range c.procs {
		// duplication
		if len(p.provs) > 1 {
			n := c.clone()
			q := n.procs[i]
			fcs := q.freeChans()
			copies := make([]*sproc, len(q.provs))
			fresh := map[int][]int{}
			for _, f := range fcs {
				for range q.provs {
					fresh[f] = append(fresh[f], n.next)
					n.next++
				}
			}
			for k := range q.provs {
				e := copyEnv(q.env)
				for name, ch := range q.env {
					if fs, ok := fresh[ch]; ok {
						e[name] = fs[k]
					}
				}
				copies[k] = &sproc{provs: []int{q.provs[k]}, t: q.t, env: e, self: q.self}
			}
			n.remove(i)
			for _, f := range fcs {
				n.replaceProv(f, fresh[f])
			}
			n.procs = append(n.procs, copies...)
			out = append(out, succ{c: n})
		}
		// garbage collection of dropped objects
		if len(p.provs) == 0 {
			collect := false
			switch {
			case posAxiom(p):
				collect = true
			case (p.t.K == TRecv || p.t.K == TCase || p.t.K == TShift) && p.isSelf(p.t.X):
				collect = true
			}
			if collect {
				n := c.clone()
				q := n.procs[i]
				fcs := q.freeChans()
				n.remove(i)
				for _, f := range fcs {
					n.replaceProv(f, nil)
				}
				out = append(out, succ{c: n})
				continue
			}
		}
		t := p.t
		step := func(f func(n *Config, q *sproc) string) {
			n := c.clone()
			pr := f(n, n.procs[i])
			out = append(out, succ{c: n, print: pr})
		}
		switch t.K {
		case TPrint:
			step(func(n *Config, q *sproc) string {
				q.t = t.Cont
				n.prints = append(n.prints, t.Label)
				return t.Label
			})
		case TNew:
			step(func(n *Config, q *sproc) string {
				d := n.next
				n.next++
				child := &sproc{provs: []int{d}, t: t.Body, env: q.env, self: t.X}
				e := copyEnv(q.env)
				e[t.X] = d
				q.env = e
				q.t = t.Cont
				n.procs = append(n.procs, child)
				return ""
			})
		case TCall:
			f := s.funcs[t.Fn]
			if f == nil {
				continue
			}
			args := t.Args
			if len(args) == len(f.Params)+1 {
				args = args[1:]
			}
			if len(args) != len(f.Params) {
				continue
			}
			step(func(n *Config, q *sproc) string {
				e := map[string]int{}
				for k, prm := range f.Params {
					if ch, ok := q.env[args[k]]; ok {
						e[prm.Name] = ch
					}
				}
				q.env = e
				q.self = f.Provider
				q.t = f.Body
				return ""
			})
		case TSplit:
			d, ok := p.ch(t.X)
			if !ok || c.provider(d) < 0 {
				continue
			}
			step(func(n *Config, q *sproc) string {
				a, b := n.next, n.next+1
				n.next += 2
				n.replaceProv(d, []int{a, b})
				e := copyEnv(q.env)
				delete(e, t.X)
				e[t.Y], e[t.Z] = a, b
				q.env, q.t = e, t.Cont
				return ""
			})
		case TDrop:
			d, ok := p.ch(t.X)
			if !ok || c.provider(d) < 0 {
				continue
			}
			step(func(n *Config, q *sproc) string {
				n.replaceProv(d, nil)
				e := copyEnv(q.env)
				delete(e, t.X)
				q.env, q.t = e, t.Cont
				return ""
			})
		case TFwd:
			d, ok := p.ch(t.Y)
			if !ok || c.provider(d) < 0 || !p.isSelf(t.X) {
				continue
			}
			n := c.clone()
			provs := n.procs[i].provs
			n.remove(i)
			n.replaceProv(d, provs)
			out = append(out, succ{c: n})
		case TRecv, TCase, TWait, TShift:
			if t.K != TWait && p.isSelf(t.X) {
				// negative receive on self: needs exactly one provider channel and a message addressed to it
				if len(p.provs) != 1 {
					continue
				}
				me := p.provs[0]
				for j, m := range c.procs {
					if j == i || !negAxiom(m) {
						continue
					}
					to, ok := m.ch(m.t.X)
					if !ok || to != me {
						continue
					}
					if (t.K == TRecv) != (m.t.K == TSend) || (t.K == TCase) != (m.t.K == TSel) || (t.K == TShift) != (m.t.K == TCast) {
						continue // protocol mismatch: stuck (reported as no final state)
					}
					n := c.clone()
					q, mm := n.procs[i], n.procs[j]
					e := copyEnv(q.env)
					switch t.K {
					case TRecv:
						if ch, ok := mm.ch(mm.t.Y); ok {
							e[t.Y] = ch
						}
						q.self = t.Z
						q.t = t.Cont
					case TCase:
						var br *TmBranch
						for k := range t.Branches {
							if t.Branches[k].Label == mm.t.Label {
								br = &t.Branches[k]
							}
						}
						if br == nil {
							continue
						}
						q.self = br.Var
						q.t = br.Body
					case TShift:
						q.self = t.Y
						q.t = t.Cont
					}
					q.env = e
					q.provs = append([]int{}, mm.provs...)
					if j < i {
						n.remove(j)
					} else {
						n.remove(j)
					}
					out = append(out, succ{c: n})
				}
				continue
			}
			// positive receive from a client channel: the provider must be a passive positive message with one name
			d, ok := p.ch(t.X)
			if !ok {
				continue
			}
			j := c.provider(d)
			if j < 0 || j == i {
				continue
			}
			m := c.procs[j]
			if !posAxiom(m) || len(m.provs) != 1 {
				continue
			}
			okKind := (t.K == TRecv && m.t.K == TSend) || (t.K == TCase && m.t.K == TSel) || (t.K == TWait && m.t.K == TClose) || (t.K == TShift && m.t.K == TCast)
			if !okKind {
				continue
			}
			n := c.clone()
			q, mm := n.procs[i], n.procs[j]
			e := copyEnv(q.env)
			delete(e, t.X)
			switch t.K {
			case TRecv:
				if ch, ok := mm.ch(mm.t.Y); ok {
					e[t.Y] = ch
				}
				if ch, ok := mm.ch(mm.t.Z); ok {
					e[t.Z] = ch
				}
				q.t = t.Cont
			case TCase:
				var br *TmBranch
				for k := range t.Branches {
					if t.Branches[k].Label == mm.t.Label {
						br = &t.Branches[k]
					}
				}
				if br == nil {
					continue
				}
				if ch, ok := mm.ch(mm.t.Y); ok {
					e[br.Var] = ch
				}
				q.t = br.Body
			case TWait:
				q.t = t.Cont
			case TShift:
				if ch, ok := mm.ch(mm.t.Y); ok {
					e[t.Y] = ch
				}
				q.t = t.Cont
			}
			q.env = e
			n.remove(j)
			out = append(out, succ{c: n})
		}
	}
	return out
}

// key: canonical description of a configuration up to renaming of channels.
func (c *Config) key(withPrints bool) string {
	type ent struct {
		shape string
		p     *sproc
	}
	ents := make([]ent, len(c.procs))
	for i, p := range c.procs {
		ents[i] = ent{fmt.Sprintf("%p|%d|%s", p.t, len(p.provs), p.self), p}
	}
	sort.SliceStable(ents, func(i, j int) bool { return ents[i].shape < ents[j].shape })
	ren := map[int]int{}
	id := func(ch int) int {
		if v, ok := ren[ch]; ok {
			return v
		}
		ren[ch] = len(ren) + 1
		return ren[ch]
	}
	var b strings.Builder
	// first pass fixes a numbering by provider lists in sorted order, second prints
	for _, e := range ents {
		for _, ch := range e.p.provs {
			id(ch)
		}
	}
	for _, e := range ents {
		fmt.Fprintf(&b, "[%s", e.shape)
		for _, ch := range e.p.provs {
			fmt.Fprintf(&b, " %d", id(ch))
		}
		b.WriteString(" |")
		names := freeNames(e.p.t)
		sort.Strings(names)
		for _, n := range names {
			if ch, ok := e.p.env[n]; ok && !e.p.isSelf(n) {
				fmt.Fprintf(&b, " %s=%d", n, id(ch))
			}
		}
		b.WriteString("]")
	}
	if withPrints {
		ps := append([]string{}, c.prints...)
		sort.Strings(ps)
		b.WriteString("#" + strings.Join(ps, ","))
	}
	return b.String()
}

// Finals explores all interleavings and returns the set of printed multisets of terminal
// configurations (as sorted, comma-joined strings). ok=false if the state budget was exceeded.
func (s *Sem) Finals() (map[string]bool, bool) {
	s.memo = map[string]bool{}
	s.finals = map[string]bool{}
	s.States, s.Over = 0, false
	s.dfs(s.initial())
	return s.finals, !s.Over
}

func (s *Sem) dfs(c *Config) {
	if s.Over {
		return
	}
	k := c.key(true)
	if s.memo[k] {
		return
	}
	s.memo[k] = true
	s.States++
	if s.States > s.Budget {
		s.Over = true
		return
	}
	succs := s.successors(c)
	if len(succs) == 0 {
		ps := append([]string{}, c.prints...)
		sort.Strings(ps)
		s.finals[strings.Join(ps, ",")] = true
		return
	}
	for _, n := range succs {
		s.Steps++
		s.dfs(n.c)
	}
}

// OneRun follows the first enabled transition until a terminal configuration (used for
// contraction-free programs, whose semantics is confluent). ok=false if maxSteps was exceeded.
func (s *Sem) OneRun(maxSteps int) (string, bool) {
	c := s.initial()
	for i := 0; i < maxSteps; i++ {
		succs := s.successors(c)
		if len(succs) == 0 {
			ps := append([]string{}, c.prints...)
			sort.Strings(ps)
			return strings.Join(ps, ","), true
		}
		c = succs[0].c
	}
	return "", false
}

// CanProduce reports whether the reference semantics has a complete run that prints exactly seq (in this order).
func (s *Sem) CanProduce(seq []string) (bool, bool) {
	s.memo = map[string]bool{}
	s.States, s.Over = 0, false
	s.guide = seq
	ok := s.guided(s.initial(), 0)
	return ok, !s.Over
}

func (s *Sem) guided(c *Config, pos int) bool {
	if s.Over {
		return false
	}
	k := fmt.Sprintf("%d|%s", pos, c.key(false))
	if s.memo[k] {
		return false
	}
	s.memo[k] = true
	s.States++
	if s.States > s.Budget {
		s.Over = true
		return false
	}
	succs := s.successors(c)
	if len(succs) == 0 {
		return pos == len(s.guide)
	}
	for _, n := range succs {
		np := pos
		if n.print != "" {
			if pos >= len(s.guide) || s.guide[pos] != n.print {
				continue
			}
			np = pos + 1
		}
		if s.guided(n.c, np) {
			return true
		}
	}
	return false
}
