// Package harness is the coordinator/worker skeleton shared by all checks: deterministic case
// enumeration, sharding over worker subprocesses, crash attribution, known-findings handling,
// replay files and the evidence file.
package harness

import (
	"bufio"
	"crypto/sha1"
	"encoding/json"
	"fmt"
	"io"
	"os"
	"os/exec"
	"path/filepath"
	"runtime"
	"sort"
	"strconv"
	"strings"
	"sync"
	"time"
)

type Ctx struct {
	ID       string
	Tier     string
	Seed     int64
	VerifDir string
	RepoDir  string
	Scratch  string
	Workers  int
	Extra    map[string]string
}

func (c *Ctx) Thorough() bool { return c.Tier == "thorough" }

// Violation is one counterexample. Key identifies the failing input class (stable across runs).
type Violation struct {
	Key    string                 `json:"key"`
	Desc   string                 `json:"desc"`
	Replay map[string]interface{} `json:"replay"`
}

// Rec collects what a worker observed.
type Rec struct {
	Counters   map[string]int64
	Samples    []interface{}
	Notes      map[string]int64 // free-form buckets (info, skipped reasons)
	violations []Violation
	maxSamples int
	emit       func(Violation) // set by the worker: violations are written out at once (a later hang must not lose them)
}

func NewRec() *Rec {
	return &Rec{Counters: map[string]int64{}, Notes: map[string]int64{}, maxSamples: 6}
}
func (r *Rec) Add(name string, n int64) { r.Counters[name] += n }
func (r *Rec) Note(bucket string)       { r.Notes[bucket]++ }
func (r *Rec) Sample(s interface{}) {
	if len(r.Samples) < r.maxSamples {
		r.Samples = append(r.Samples, s)
	}
}
func (r *Rec) Violation(v Violation) {
	if r.emit != nil {
		r.emit(v)
		return
	}
	r.violations = append(r.violations, v)
}

type Check struct {
	ID          string
	Level       string // model_checking | exploration
	Rule        string // how cases are enumerated / what is non-trivial
	Assumptions []string
	// Cases returns the number of cases of this tier; Run is called in a worker for each index.
	Cases func(c *Ctx) int
	Run   func(c *Ctx, idx int, r *Rec)
	// Init, if set, runs once in each worker before the first case.
	Init func(c *Ctx)
	// Finish, if set, runs in the coordinator after all workers; it may add violations or counters.
	Finish func(c *Ctx, r *Rec)
	// CaseTimeout is a safety net only (exceeding it yields exhaustive:false, never a violation).
	CaseTimeout time.Duration
}

var registry = map[string]*Check{}

func Register(c *Check) { registry[c.ID] = c }
func Lookup(id string) *Check {
	return registry[id]
}
func IDs() []string {
	var ids []string
	for k := range registry {
		ids = append(ids, k)
	}
	sort.Strings(ids)
	return ids
}

type wireMsg struct {
	Counters map[string]int64 `json:"c,omitempty"`
	Notes    map[string]int64 `json:"n,omitempty"`
	Samples  []interface{}    `json:"s,omitempty"`
	V        *Violation       `json:"v,omitempty"`
}

// Worker runs the cases idx ≡ shard (mod n), starting at index from.
func Worker(c *Ctx, ck *Check, shard, n, from int, out io.Writer) {
	w := bufio.NewWriter(out)
	defer w.Flush()
	if ck.Init != nil {
		ck.Init(c)
	}
	total := ck.Cases(c)
	rec := NewRec()
	emit := func(v Violation) {
		b, _ := json.Marshal(wireMsg{V: &v})
		fmt.Fprintf(w, "M %s\n", b)
		w.Flush()
	}
	rec.emit = emit
	flush := func() {
		for _, v := range rec.violations {
			vv := v
			b, _ := json.Marshal(wireMsg{V: &vv})
			fmt.Fprintf(w, "M %s\n", b)
		}
		b, _ := json.Marshal(wireMsg{Counters: rec.Counters, Notes: rec.Notes, Samples: rec.Samples})
		fmt.Fprintf(w, "M %s\n", b)
		w.Flush()
		ns := len(rec.Samples)
		rec = NewRec()
		rec.emit = emit
		rec.maxSamples -= ns
		if rec.maxSamples < 0 {
			rec.maxSamples = 0
		}
	}
	last := time.Now()
	var deadline int64
	if d := os.Getenv("VERIF_DEADLINE_UNIX"); d != "" {
		deadline, _ = strconv.ParseInt(d, 10, 64)
	}
	for idx := from; idx < total; idx++ {
		if idx%n != shard {
			continue
		}
		if deadline > 0 && time.Now().Unix() > deadline {
			// overall time budget of this run is used up: the remaining cases of this shard are not run;
			// the coordinator reports the run as not exhaustive (exit code unaffected)
			left := int64(0)
			for j := idx; j < total; j++ {
				if j%n == shard {
					left++
				}
			}
			rec.Add("cases_not_run_time_budget", left)
			rec.Note(fmt.Sprintf("time budget reached: cases from index %d on of shard %d not run", idx, shard))
			break
		}
		fmt.Fprintf(w, "B %d\n", idx)
		w.Flush()
		ck.Run(c, idx, rec)
		fmt.Fprintf(w, "E %d\n", idx)
		if len(rec.violations) > 0 || time.Since(last) > 2*time.Second {
			flush()
			last = time.Now()
		}
	}
	flush()
	fmt.Fprintf(w, "D\n")
}

type knownFile struct {
	known map[string]string // "prop key" -> description
}

func loadKnown(path string) *knownFile {
	k := &knownFile{known: map[string]string{}}
	data, err := os.ReadFile(path)
	if err != nil {
		return k
	}
	for _, line := range strings.Split(string(data), "\n") {
		line = strings.TrimSpace(line)
		if !strings.HasPrefix(line, "known:") {
			continue
		}
		// known: property=<id> key=<key or "quoted key"> <description>
		var prop, key string
		rest := []string{}
		body := strings.TrimSpace(strings.TrimPrefix(line, "known:"))
		if i := strings.Index(body, "key=\""); i >= 0 {
			j := strings.Index(body[i+5:], "\"")
			if j >= 0 {
				key = body[i+5 : i+5+j]
				body = body[:i] + body[i+5+j+1:]
			}
		}
		for _, x := range strings.Fields(body) {
			if strings.HasPrefix(x, "property=") && prop == "" {
				prop = strings.TrimPrefix(x, "property=")
			} else if strings.HasPrefix(x, "key=") && key == "" {
				key = strings.TrimPrefix(x, "key=")
			} else {
				rest = append(rest, x)
			}
		}
		k.known[prop+" "+key] = strings.Join(rest, " ")
	}
	return k
}

// Coordinate runs the check with worker subprocesses and writes evidence. Returns the exit code.
func Coordinate(c *Ctx, ck *Check) int {
	start := time.Now()
	if ck.Init != nil {
		ck.Init(c)
	}
	total := ck.Cases(c)
	nw := c.Workers
	if nw <= 0 {
		nw = runtime.NumCPU()
	}
	if nw > total {
		nw = total
	}
	if nw < 1 {
		nw = 1
	}
	self, _ := os.Executable()
	var mu sync.Mutex
	agg := NewRec()
	agg.maxSamples = 8
	var viols []Violation
	var crashes []string
	inconclusive := 0
	timeout := ck.CaseTimeout
	if timeout == 0 {
		timeout = 180 * time.Second
		if c.Thorough() {
			timeout = 40 * time.Minute // safety net only; thorough cases (delay 3 + S-dpor on one program) can take minutes
		}
	}
	// overall time budget (VERIF_BUDGET_S; default 25 min quick, 90 min thorough): when it is used up the workers stop
	// taking new cases and the run ends with exhaustive=false; a budget is never a verdict
	budget := int64(1500)
	if c.Thorough() {
		budget = 5400
	}
	if b, err := strconv.ParseInt(os.Getenv("VERIF_BUDGET_S"), 10, 64); err == nil && b > 0 {
		budget = b
	}
	deadline := start.Unix() + budget
	var wg sync.WaitGroup
	for sh := 0; sh < nw; sh++ {
		wg.Add(1)
		go func(sh int) {
			defer wg.Done()
			from := 0
			crashCount := map[int]int{}
			for {
				args := []string{"-worker", "-id", c.ID, "-tier", c.Tier, "-seed", strconv.FormatInt(c.Seed, 10),
					"-verif", c.VerifDir, "-repo", c.RepoDir, "-scratch", c.Scratch,
					"-shard", strconv.Itoa(sh), "-nshards", strconv.Itoa(nw), "-from", strconv.Itoa(from)}
				for k, v := range c.Extra {
					args = append(args, "-x", k+"="+v)
				}
				cmd := exec.Command(self, args...)
				cmd.Env = append(os.Environ(), "GOMAXPROCS=2", "GOTRACEBACK=single", "VERIF_DEADLINE_UNIX="+strconv.FormatInt(deadline, 10))
				stdout, _ := cmd.StdoutPipe()
				var errBuf strings.Builder
				cmd.Stderr = &limitedWriter{w: &errBuf, n: 1 << 16}
				if os.Getenv("VERIF_DEBUG") != "" {
					cmd.Stderr = os.Stderr
				}
				if err := cmd.Start(); err != nil {
					mu.Lock()
					crashes = append(crashes, "cannot start worker: "+err.Error())
					mu.Unlock()
					return
				}
				curIdx := -1
				done := false
				var timedOut bool
				timer := time.AfterFunc(timeout, func() { timedOut = true; cmd.Process.Kill() })
				sc := bufio.NewScanner(stdout)
				sc.Buffer(make([]byte, 1<<20), 1<<26)
				for sc.Scan() {
					line := sc.Text()
					switch {
					case strings.HasPrefix(line, "B "):
						curIdx, _ = strconv.Atoi(line[2:])
						timer.Reset(timeout)
					case strings.HasPrefix(line, "E "):
						curIdx = -1
					case line == "D":
						done = true
					case strings.HasPrefix(line, "M "):
						var m wireMsg
						if json.Unmarshal([]byte(line[2:]), &m) == nil {
							mu.Lock()
							for k, v := range m.Counters {
								agg.Counters[k] += v
							}
							for k, v := range m.Notes {
								agg.Notes[k] += v
							}
							for _, s := range m.Samples {
								agg.Sample(s)
							}
							if m.V != nil {
								viols = append(viols, *m.V)
							}
							mu.Unlock()
						}
					}
				}
				cmd.Wait()
				timer.Stop()
				if done {
					return
				}
				// worker died: attribute to curIdx
				mu.Lock()
				if timedOut {
					inconclusive++
					agg.Notes[fmt.Sprintf("inconclusive: watchdog at case %d", curIdx)]++
				} else if curIdx >= 0 {
					crashCount[curIdx]++
					if crashCount[curIdx] >= 3 {
						tail := errBuf.String()
						if len(tail) > 1500 {
							tail = tail[:1500]
						}
						crashes = append(crashes, fmt.Sprintf("case %d kills the worker process (3 times): %s", curIdx, tail))
					}
				} else {
					crashes = append(crashes, "worker died outside a case: "+errBuf.String())
					mu.Unlock()
					return
				}
				mu.Unlock()
				if curIdx < 0 {
					return
				}
				if timedOut || crashCount[curIdx] >= 3 {
					from = curIdx + 1
				} else {
					from = curIdx // retry the same case to confirm
				}
			}
		}(sh)
	}
	wg.Wait()
	for _, cr := range crashes {
		viols = append(viols, Violation{Key: "worker-crash", Desc: cr, Replay: map[string]interface{}{"kind": "crash"}})
	}
	if ck.Finish != nil {
		ck.Finish(c, agg)
		viols = append(viols, agg.violations...)
	}
	// classify
	outDir := c.VerifDir
	if o := os.Getenv("VERIF_OUT"); o != "" {
		outDir = o // used only when trying the checks against mutants (never by registered commands)
	}
	known := loadKnown(filepath.Join(c.VerifDir, "known_findings.txt"))
	seen := map[string]bool{}
	exit := 0
	nviol := 0
	sort.SliceStable(viols, func(i, j int) bool { return viols[i].Key < viols[j].Key })
	for _, v := range viols {
		if seen[v.Key] {
			continue
		}
		seen[v.Key] = true
		if _, ok := known.known[c.ID+" "+v.Key]; ok {
			fmt.Printf("KNOWN-FINDING: property=%s key=%s %s\n", c.ID, v.Key, oneLine(v.Desc))
			continue
		}
		nviol++
		h := sha1.Sum([]byte(v.Key))
		dir := filepath.Join(outDir, "replays", c.ID)
		os.MkdirAll(dir, 0755)
		path := filepath.Join(dir, fmt.Sprintf("%x.json", h[:6]))
		rp := map[string]interface{}{"property": c.ID, "key": v.Key, "desc": v.Desc, "replay": v.Replay,
			"replay_cmd": fmt.Sprintf("./check.sh %s replay %s", c.ID, path)}
		b, _ := json.MarshalIndent(rp, "", " ")
		os.WriteFile(path, b, 0644)
		fmt.Printf("VIOLATION property=%s replay=%s\n", c.ID, path)
		fmt.Printf("  key=%s %s\n", v.Key, oneLine(v.Desc))
		exit = 1
	}
	// evidence
	cov := map[string]interface{}{}
	for k, v := range agg.Counters {
		cov[k] = v
	}
	if len(agg.Notes) > 0 {
		cov["notes"] = agg.Notes
	}
	cov["rule"] = ck.Rule
	samples := agg.Samples
	if len(samples) == 0 {
		samples = []interface{}{"(no sample recorded)"}
	}
	cov["samples"] = samples
	cov["cases"] = total
	if _, ok := cov["evaluations"]; !ok {
		cov["evaluations"] = int64(total)
	}
	capped := agg.Counters["capped"] > 0 || inconclusive > 0 || agg.Counters["cases_not_run_time_budget"] > 0
	cov["time_budget_s"] = budget
	cov["exhaustive"] = !capped
	delete(cov, "capped")
	cov["capped_cases"] = agg.Counters["capped"]
	cov["inconclusive_cases"] = inconclusive
	ev := map[string]interface{}{
		"property_id": c.ID, "tier": c.Tier, "seed": c.Seed, "level": ck.Level,
		"coverage": cov, "assumptions": ck.Assumptions, "wall_s": time.Since(start).Seconds(), "violations": nviol,
	}
	b, _ := json.MarshalIndent(ev, "", " ")
	os.MkdirAll(filepath.Join(outDir, "evidence"), 0755)
	os.WriteFile(filepath.Join(outDir, "evidence", c.ID+".json"), b, 0644)
	fmt.Printf("%s %s: cases=%d evaluations=%v violations=%d exhaustive=%v wall=%.1fs\n", c.ID, c.Tier, total, cov["evaluations"], nviol, !capped, time.Since(start).Seconds())
	return exit
}

func oneLine(s string) string {
	s = strings.ReplaceAll(s, "\n", " | ")
	if len(s) > 400 {
		s = s[:400] + "..."
	}
	return s
}

type limitedWriter struct {
	w io.Writer
	n int
}

func (l *limitedWriter) Write(p []byte) (int, error) {
	if l.n <= 0 {
		return len(p), nil
	}
	q := p
	if len(q) > l.n {
		q = q[:l.n]
	}
	l.n -= len(q)
	l.w.Write(q)
	return len(p), nil
}
