// Package vfmt replaces package fmt in the instrumented build: output written to stdout is
// captured per execution by the scheduler; everything else is the real fmt.
package vfmt

import (
	"fmt"

	"grits/zverif/vsched"
)

type Stringer = fmt.Stringer
type GoStringer = fmt.GoStringer
type Formatter = fmt.Formatter
type State = fmt.State
type Scanner = fmt.Scanner
type ScanState = fmt.ScanState

var (
	Sprintf  = fmt.Sprintf
	Sprint   = fmt.Sprint
	Sprintln = fmt.Sprintln
	Errorf   = fmt.Errorf
	Fprintf  = fmt.Fprintf
	Fprint   = fmt.Fprint
	Fprintln = fmt.Fprintln
	Sscanf   = fmt.Sscanf
	Sscan    = fmt.Sscan
	Sscanln  = fmt.Sscanln
	Fscan    = fmt.Fscan
	Fscanf   = fmt.Fscanf
	Fscanln  = fmt.Fscanln
	Appendf  = fmt.Appendf
	Append   = fmt.Append
)

// Quiet suppresses real output when no scheduler is active (used by drivers).
var Quiet = true

func out(s string) (int, error) {
	if vsched.Print(s) {
		return len(s), nil
	}
	if Quiet {
		return len(s), nil
	}
	return fmt.Print(s)
}

func Printf(format string, a ...interface{}) (int, error) { return out(fmt.Sprintf(format, a...)) }
func Println(a ...interface{}) (int, error)               { return out(fmt.Sprintln(a...)) }
func Print(a ...interface{}) (int, error)                 { return out(fmt.Sprint(a...)) }
