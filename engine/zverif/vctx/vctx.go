// Package vctx replaces package context in the instrumented build: Done() channels are closed
// through vsched.Close so that the scheduler knows about the cancellation.
package vctx

import (
	"errors"
	"time"

	"grits/zverif/vsched"
	"grits/zverif/vtime"
)

type Context interface {
	Done() chan struct{}
	Err() error
	Value(key any) any
	Deadline() (time.Time, bool)
}
type CancelFunc func()

var Canceled = errors.New("context canceled")
var DeadlineExceeded = errors.New("context deadline exceeded")

type ctx struct {
	parent   Context
	done     chan struct{}
	err      error
	children []*ctx
	key, val any
}

func (c *ctx) Done() chan struct{} { return c.done }
func (c *ctx) Err() error          { return c.err }
func (c *ctx) Value(key any) any {
	if c.key != nil && c.key == key {
		return c.val
	}
	if c.parent != nil {
		return c.parent.Value(key)
	}
	return nil
}
func (c *ctx) Deadline() (time.Time, bool) { return time.Time{}, false }

func (c *ctx) cancel(err error) {
	if c.err != nil {
		return
	}
	c.err = err
	if c.done != nil {
		vsched.Close(c.done)
	}
	for _, ch := range c.children {
		ch.cancel(err)
	}
}

var background = &ctx{}

func Background() Context { return background }
func TODO() Context       { return background }

func WithCancel(parent Context) (Context, CancelFunc) {
	c := &ctx{parent: parent, done: make(chan struct{})}
	if p, ok := parent.(*ctx); ok && p != background {
		if p.err != nil {
			c.cancel(p.err)
		} else {
			p.children = append(p.children, c)
		}
	}
	return c, func() { c.cancel(Canceled) }
}

func WithTimeout(parent Context, d time.Duration) (Context, CancelFunc) {
	c, cancel := WithCancel(parent)
	t := vtime.AfterFunc(d, func() { c.(*ctx).cancel(DeadlineExceeded) })
	return c, func() { t.Stop(); cancel() }
}

func WithValue(parent Context, key, val any) Context {
	p, _ := parent.(*ctx)
	c := &ctx{parent: parent, key: key, val: val}
	if p != nil {
		c.done = p.done
	}
	return c
}
