// Package vobs lets a driver observe the typechecker's own judgements: the instrumenter
// prepends vobs.Judgement(receiver, params...) to every method named typecheckForm.
package vobs

import "runtime"

// OnJudgement, if set, is called with the receiver and the parameters of typecheckForm and
// the name of the calling function (two frames up).
var OnJudgement func(caller string, args []interface{})

func Judgement(args ...interface{}) {
	f := OnJudgement
	if f == nil {
		return
	}
	caller := ""
	if pc, _, _, ok := runtime.Caller(2); ok {
		if fn := runtime.FuncForPC(pc); fn != nil {
			caller = fn.Name()
		}
	}
	f(caller, args)
}
