// vinstr: purely syntactic Go source rewriter used by the /verif model-checking engine.
//
// It copies selected package directories of a Grits source tree into a scratch module and
// rewrites, in the packages named with -pkgs, every concurrency construct into a call of the
// controlled scheduler (package grits/zverif/vsched):
//
//	go f(a, b)        -> { f' := f; a' := a; ...; vsched.Go("f", func(){ f'(a', b') }) }
//	ch <- v           -> vsched.Send(ch, v)
//	<-ch              -> vsched.Recv(ch)         v, ok := <-ch  -> vsched.Recv2(ch)
//	close(ch)         -> vsched.Close(ch)
//	select {...}      -> t, i := vsched.Select(hasDefault, cases...); switch i { case k: real op; body }
//	for x := range ch -> left alone (reported on stderr)
//	imports time/context/sync/fmt -> grits/zverif/{vtime,vctx,vsync,vfmt}
//	func and for bodies -> vfuel.Tick() prepended (deterministic step budget)
//	methods named typecheckForm -> vobs.Judgement(<params...>) prepended
//
// It needs no type information, so it keeps working on edited sources as long as they parse.
package main

import (
	"bytes"
	"flag"
	"fmt"
	"go/ast"
	"go/format"
	"go/parser"
	"go/token"
	"os"
	"path/filepath"
	"strconv"
	"strings"

	"golang.org/x/tools/go/ast/astutil"
)

const base = "grits/zverif/"

var importMap = map[string]string{
	"time":    base + "vtime",
	"context": base + "vctx",
	"sync":    base + "vsync",
	"fmt":     base + "vfmt",
}

func sel(pkg, name string) ast.Expr {
	return &ast.SelectorExpr{X: ast.NewIdent(pkg), Sel: ast.NewIdent(name)}
}
func call(fun ast.Expr, args ...ast.Expr) *ast.CallExpr { return &ast.CallExpr{Fun: fun, Args: args} }

var tmpCounter int

func tmp(prefix string) *ast.Ident {
	tmpCounter++
	return ast.NewIdent(fmt.Sprintf("vs__%s%d", prefix, tmpCounter))
}

type ctx struct {
	usedSched bool
	usedFuel  bool
	usedObs   bool
	fuel      bool
	notes     []string
}

func define(lhs ast.Expr, rhs ast.Expr) ast.Stmt {
	return &ast.AssignStmt{Lhs: []ast.Expr{lhs}, Tok: token.DEFINE, Rhs: []ast.Expr{rhs}}
}

func (c *ctx) rewriteSelect(s *ast.SelectStmt) ast.Stmt {
	var pre []ast.Stmt
	var cases []ast.Expr
	var clauses []ast.Stmt
	tt, ti := tmp("t"), tmp("i")
	hasDefault := false
	idx := 0
	for _, cl := range s.Body.List {
		cc := cl.(*ast.CommClause)
		if cc.Comm == nil {
			hasDefault = true
			clauses = append(clauses, &ast.CaseClause{List: nil, Body: cc.Body})
			continue
		}
		var realOp ast.Stmt
		switch cm := cc.Comm.(type) {
		case *ast.SendStmt:
			ct, vt := tmp("c"), tmp("v")
			pre = append(pre, define(ct, cm.Chan))
			var val ast.Expr = vt
			if isUntypedConst(cm.Value) {
				val = cm.Value
			} else {
				pre = append(pre, define(vt, cm.Value))
			}
			cases = append(cases, call(sel("vsched", "SendCase"), ct, val))
			realOp = &ast.IfStmt{Cond: call(sel("vsched", "Live"), tt), Body: &ast.BlockStmt{List: []ast.Stmt{
				&ast.SendStmt{Chan: ct, Value: val},
				&ast.ExprStmt{X: call(sel("vsched", "PostOp"), tt)}}}}
		case *ast.ExprStmt: // <-ch
			u := unparen(cm.X).(*ast.UnaryExpr)
			ct := tmp("c")
			pre = append(pre, define(ct, u.X))
			cases = append(cases, call(sel("vsched", "RecvCase"), ct))
			realOp = &ast.ExprStmt{X: call(sel("vsched", "RecvNow"), tt, ct)}
		case *ast.AssignStmt: // v := <-ch ; v, ok := <-ch ; v = <-ch
			u := unparen(cm.Rhs[0]).(*ast.UnaryExpr)
			ct := tmp("c")
			pre = append(pre, define(ct, u.X))
			cases = append(cases, call(sel("vsched", "RecvCase"), ct))
			fn := "RecvNow"
			if len(cm.Lhs) == 2 {
				fn = "RecvNow2"
			}
			realOp = &ast.AssignStmt{Lhs: cm.Lhs, Tok: cm.Tok, Rhs: []ast.Expr{call(sel("vsched", fn), tt, ct)}}
		default:
			panic(fmt.Sprintf("unknown comm clause %T", cc.Comm))
		}
		body := append([]ast.Stmt{realOp}, cc.Body...)
		clauses = append(clauses, &ast.CaseClause{List: []ast.Expr{&ast.BasicLit{Kind: token.INT, Value: strconv.Itoa(idx)}}, Body: body})
		idx++
	}
	def := "false"
	if hasDefault {
		def = "true"
	} else {
		clauses = append(clauses, &ast.CaseClause{List: nil, Body: []ast.Stmt{&ast.ExprStmt{X: call(ast.NewIdent("panic"), &ast.BasicLit{Kind: token.STRING, Value: strconv.Quote("vsched: bad select index")})}}})
	}
	args := append([]ast.Expr{ast.NewIdent(def)}, cases...)
	init := &ast.AssignStmt{Lhs: []ast.Expr{tt, ti}, Tok: token.DEFINE, Rhs: []ast.Expr{call(sel("vsched", "Select"), args...)}}
	use := &ast.AssignStmt{Lhs: []ast.Expr{ast.NewIdent("_")}, Tok: token.ASSIGN, Rhs: []ast.Expr{tt}}
	sw := &ast.SwitchStmt{Tag: ti, Body: &ast.BlockStmt{List: clauses}}
	c.usedSched = true
	return &ast.BlockStmt{List: append(pre, init, use, sw)}
}

func isUntypedConst(e ast.Expr) bool {
	switch x := e.(type) {
	case *ast.BasicLit:
		return true
	case *ast.Ident:
		return x.Name == "nil" || x.Name == "true" || x.Name == "false"
	case *ast.ParenExpr:
		return isUntypedConst(x.X)
	case *ast.UnaryExpr:
		return x.Op != token.ARROW && x.Op != token.AND && isUntypedConst(x.X)
	}
	return false
}

func unparen(e ast.Expr) ast.Expr {
	for {
		p, ok := e.(*ast.ParenExpr)
		if !ok {
			return e
		}
		e = p.X
	}
}

func exprName(e ast.Expr) string {
	switch x := e.(type) {
	case *ast.Ident:
		return x.Name
	case *ast.SelectorExpr:
		return x.Sel.Name
	case *ast.FuncLit:
		return "func"
	case *ast.ParenExpr:
		return exprName(x.X)
	}
	return "?"
}

func (c *ctx) rewriteGo(g *ast.GoStmt) ast.Stmt {
	var pre []ast.Stmt
	name := exprName(g.Call.Fun)
	var fun ast.Expr
	if fl, ok := g.Call.Fun.(*ast.FuncLit); ok {
		fun = fl // evaluated at the go statement anyway; closure captures by reference like the original
	} else {
		ft := tmp("f")
		pre = append(pre, define(ft, g.Call.Fun))
		fun = ft
	}
	var args []ast.Expr
	for _, a := range g.Call.Args {
		if _, ok := a.(*ast.BasicLit); ok {
			args = append(args, a)
			continue
		}
		at := tmp("a")
		pre = append(pre, define(at, a))
		args = append(args, at)
	}
	inner := &ast.CallExpr{Fun: fun, Args: args, Ellipsis: g.Call.Ellipsis}
	lit := &ast.FuncLit{Type: &ast.FuncType{Params: &ast.FieldList{}}, Body: &ast.BlockStmt{List: []ast.Stmt{&ast.ExprStmt{X: inner}}}}
	pre = append(pre, &ast.ExprStmt{X: call(sel("vsched", "Go"), &ast.BasicLit{Kind: token.STRING, Value: strconv.Quote(name)}, lit)})
	c.usedSched = true
	return &ast.BlockStmt{List: pre}
}

func isVschedCall(e ast.Expr) (*ast.SelectorExpr, bool) {
	cl, ok := e.(*ast.CallExpr)
	if !ok {
		return nil, false
	}
	s, ok := cl.Fun.(*ast.SelectorExpr)
	if !ok {
		return nil, false
	}
	id, ok := s.X.(*ast.Ident)
	return s, ok && id.Name == "vsched"
}

func (c *ctx) rewriteNode(n ast.Node) ast.Node {
	switch x := n.(type) {
	case *ast.GoStmt:
		return c.rewriteGo(x)
	case *ast.SendStmt:
		if id, ok := x.Chan.(*ast.Ident); ok && strings.HasPrefix(id.Name, "vs__") {
			return nil // the real operation of an already rewritten select case
		}
		c.usedSched = true
		ct, vt, tk := tmp("c"), tmp("v"), tmp("k")
		list := []ast.Stmt{define(ct, x.Chan)}
		var val ast.Expr = vt
		if isUntypedConst(x.Value) {
			val = x.Value
		} else {
			list = append(list, define(vt, x.Value))
		}
		list = append(list, define(tk, call(sel("vsched", "PreSend"), ct)),
			&ast.SendStmt{Chan: ct, Value: val},
			&ast.ExprStmt{X: call(sel("vsched", "PostOp"), tk)})
		return &ast.BlockStmt{List: list}
	case *ast.AssignStmt:
		if len(x.Lhs) == 2 && len(x.Rhs) == 1 {
			if s, ok := isVschedCall(x.Rhs[0]); ok && s.Sel.Name == "Recv" {
				s.Sel = ast.NewIdent("Recv2")
			}
		}
	case *ast.ValueSpec:
		if len(x.Names) == 2 && len(x.Values) == 1 {
			if s, ok := isVschedCall(x.Values[0]); ok && s.Sel.Name == "Recv" {
				s.Sel = ast.NewIdent("Recv2")
			}
		}
	case *ast.UnaryExpr:
		if x.Op == token.ARROW {
			c.usedSched = true
			return call(sel("vsched", "Recv"), x.X)
		}
	case *ast.CallExpr:
		if id, ok := x.Fun.(*ast.Ident); ok && id.Name == "close" && len(x.Args) == 1 {
			c.usedSched = true
			return call(sel("vsched", "Close"), x.Args[0])
		}
	case *ast.RangeStmt:
		// cannot classify the operand syntactically; channels are never ranged over in Grits
	}
	return nil
}

// selects are rewritten pre-order (so that their comm clauses are not rewritten individually);
// nested selects inside clause bodies are handled by recursion before replacement.
func (c *ctx) rewriteSelectsIn(n ast.Node) {
	astutil.Apply(n, func(cur *astutil.Cursor) bool {
		if s, ok := cur.Node().(*ast.SelectStmt); ok {
			for _, cl := range s.Body.List {
				cc := cl.(*ast.CommClause)
				for i := range cc.Body {
					blk := &ast.BlockStmt{List: []ast.Stmt{cc.Body[i]}}
					c.rewriteSelectsIn(blk)
					cc.Body[i] = blk.List[0]
				}
			}
			cur.Replace(c.rewriteSelect(s))
			return false
		}
		return true
	}, nil)
}

func tick() ast.Stmt { return &ast.ExprStmt{X: call(sel("vfuel", "Tick"))} }

func (c *ctx) addFuel(f *ast.File) {
	ast.Inspect(f, func(n ast.Node) bool {
		switch x := n.(type) {
		case *ast.FuncDecl:
			if x.Body != nil {
				x.Body.List = append([]ast.Stmt{tick()}, x.Body.List...)
				c.usedFuel = true
			}
		case *ast.FuncLit:
			x.Body.List = append([]ast.Stmt{tick()}, x.Body.List...)
			c.usedFuel = true
		case *ast.ForStmt:
			x.Body.List = append([]ast.Stmt{tick()}, x.Body.List...)
			c.usedFuel = true
		case *ast.RangeStmt:
			x.Body.List = append([]ast.Stmt{tick()}, x.Body.List...)
			c.usedFuel = true
		}
		return true
	})
}

func (c *ctx) addObs(f *ast.File) {
	for _, d := range f.Decls {
		fd, ok := d.(*ast.FuncDecl)
		if !ok || fd.Body == nil || fd.Recv == nil || fd.Name.Name != "typecheckForm" {
			continue
		}
		var args []ast.Expr
		if len(fd.Recv.List) == 1 && len(fd.Recv.List[0].Names) == 1 {
			args = append(args, ast.NewIdent(fd.Recv.List[0].Names[0].Name))
		} else {
			args = append(args, ast.NewIdent("nil"))
		}
		for _, p := range fd.Type.Params.List {
			for _, nm := range p.Names {
				if nm.Name == "_" {
					args = append(args, ast.NewIdent("nil"))
				} else {
					args = append(args, ast.NewIdent(nm.Name))
				}
			}
		}
		fd.Body.List = append([]ast.Stmt{&ast.ExprStmt{X: call(sel("vobs", "Judgement"), args...)}}, fd.Body.List...)
		c.usedObs = true
	}
}

func instrumentFile(fset *token.FileSet, f *ast.File, fuel bool) []string {
	c := &ctx{fuel: fuel}
	for _, im := range f.Imports {
		p, _ := strconv.Unquote(im.Path.Value)
		if np, ok := importMap[p]; ok {
			name := p
			if im.Name != nil {
				name = im.Name.Name
			}
			im.Name = ast.NewIdent(name)
			im.Path.Value = strconv.Quote(np)
		}
	}
	c.addObs(f)
	if fuel {
		c.addFuel(f)
	}
	c.rewriteSelectsIn(f)
	astutil.Apply(f, nil, func(cur *astutil.Cursor) bool {
		if r := c.rewriteNode(cur.Node()); r != nil {
			cur.Replace(r)
		}
		return true
	})
	if c.usedSched {
		astutil.AddImport(fset, f, base+"vsched")
	}
	if c.usedFuel {
		astutil.AddImport(fset, f, base+"vfuel")
	}
	if c.usedObs {
		astutil.AddImport(fset, f, base+"vobs")
	}
	return c.notes
}

func leadingComments(data []byte) []byte {
	// keep everything before the package clause (build constraints, //go: directives)
	lines := bytes.SplitAfter(data, []byte("\n"))
	var out []byte
	for _, l := range lines {
		t := bytes.TrimSpace(l)
		if bytes.HasPrefix(t, []byte("package ")) {
			break
		}
		if bytes.HasPrefix(t, []byte("//go:build")) || bytes.HasPrefix(t, []byte("// +build")) {
			out = append(out, l...)
		}
	}
	if len(out) > 0 {
		out = append(out, '\n')
	}
	return out
}

func main() {
	src := flag.String("src", "/repo", "source tree")
	dst := flag.String("dst", "", "destination (scratch module root)")
	copyDirs := flag.String("copy", "parser,process,types,position", "package directories to copy (non-test .go files)")
	pkgs := flag.String("pkgs", "parser,process,types", "package directories to instrument")
	noFuel := flag.Bool("nofuel", false, "do not insert vfuel.Tick()")
	plain := flag.Bool("plain", false, "copy only, no rewriting at all")
	flag.Parse()
	if *dst == "" {
		fmt.Fprintln(os.Stderr, "vinstr: -dst required")
		os.Exit(2)
	}
	instr := map[string]bool{}
	if !*plain {
		for _, p := range strings.Split(*pkgs, ",") {
			instr[p] = true
		}
	}
	fail := func(err error) {
		fmt.Fprintln(os.Stderr, "BUILD-ERROR vinstr:", err)
		os.Exit(2)
	}
	for _, f := range []string{"go.mod", "go.sum"} {
		data, err := os.ReadFile(filepath.Join(*src, f))
		if err != nil {
			fail(err)
		}
		if err := os.WriteFile(filepath.Join(*dst, f), data, 0644); err != nil {
			fail(err)
		}
	}
	for _, dir := range strings.Split(*copyDirs, ",") {
		if dir == "" {
			continue
		}
		ents, err := os.ReadDir(filepath.Join(*src, dir))
		if err != nil {
			fail(err)
		}
		if err := os.MkdirAll(filepath.Join(*dst, dir), 0755); err != nil {
			fail(err)
		}
		for _, e := range ents {
			name := e.Name()
			if e.IsDir() || !strings.HasSuffix(name, ".go") || strings.HasSuffix(name, "_test.go") {
				continue
			}
			path := filepath.Join(*src, dir, name)
			data, err := os.ReadFile(path)
			if err != nil {
				fail(err)
			}
			if instr[dir] {
				fset := token.NewFileSet()
				f, err := parser.ParseFile(fset, path, data, parser.ParseComments)
				if err != nil {
					fail(err)
				}
				lead := leadingComments(data)
				f.Comments = nil
				f.Doc = nil
				notes := instrumentFile(fset, f, !*noFuel)
				for _, n := range notes {
					fmt.Fprintln(os.Stderr, "vinstr note:", n)
				}
				var buf bytes.Buffer
				buf.Write(lead)
				if err := format.Node(&buf, fset, f); err != nil {
					fail(fmt.Errorf("%s: %v", path, err))
				}
				data = buf.Bytes()
			}
			if err := os.WriteFile(filepath.Join(*dst, dir, name), data, 0644); err != nil {
				fail(err)
			}
		}
	}
}
