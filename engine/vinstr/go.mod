module vinstr

go 1.22.0

require golang.org/x/tools v0.29.0
