#!/bin/bash
# usage: check.sh <property-id> <quick|thorough|replay> [replay-file]
# Rebuilds everything from /repo's current working tree into a scratch module, runs the check, cleans up.
set -u
ID="$1"; TIER="${2:-quick}"; shift; shift || true
VERIF="$(cd "$(dirname "$0")" && pwd)"
REPO="${VERIF_REPO:-/repo}"
export GOFLAGS=-mod=mod GOPROXY=off GOSUMDB=off GOTOOLCHAIN=local GOCACHE="$VERIF/.gocache" CGO_ENABLED=0
base=/dev/shm; [ -d "$base" ] && [ -w "$base" ] || base=/var/tmp
S="$(mktemp -d "$base/verif.XXXXXX")"
trap 'rm -rf "$S"' EXIT
[ -x "$VERIF/bin/vinstr" ] || (cd "$VERIF/engine/vinstr" && go build -o "$VERIF/bin/vinstr" .) || { echo "BUILD-ERROR vinstr"; exit 2; }
"$VERIF/bin/vinstr" -src "$REPO" -dst "$S" || { echo "BUILD-ERROR instrumentation failed"; exit 2; }
cp -r "${VERIF_ENGINE:-$VERIF/engine/zverif}" "$S/zverif"
(cd "$S" && go build -o "$S/vcheck" ./zverif/cmd/vcheck) 2> "$S/build.log" || { echo "BUILD-ERROR (instrumented build failed)"; head -50 "$S/build.log"; exit 2; }
EXTRA=()
if [ "$ID" = "C13" ]; then
  # uninstrumented -race build of the free-running driver
  R="$S/plain"; mkdir -p "$R"
  "$VERIF/bin/vinstr" -plain -src "$REPO" -dst "$R" || { echo "BUILD-ERROR plain copy failed"; exit 2; }
  mkdir -p "$R/zverif/cmd" && cp -r "${VERIF_ENGINE:-$VERIF/engine/zverif}/cmd/c13run" "$R/zverif/cmd/"
  (cd "$R" && CGO_ENABLED=1 go build -race -o "$S/c13run" ./zverif/cmd/c13run) 2> "$S/build13.log" || { echo "BUILD-ERROR (race build failed)"; head -30 "$S/build13.log"; exit 2; }
  EXTRA=(-x "racebin=$S/c13run")
fi
if [ "$ID" = "C18" ]; then
  # the real, uninstrumented binary
  F="$S/full"; mkdir -p "$F"
  rsync -a --exclude .git --exclude assets --exclude examples --exclude seed --exclude '*_test.go' "$REPO/" "$F/"
  (cd "$F" && go build -o "$S/grits" .) 2> "$S/build18.log" || { echo "BUILD-ERROR (grits binary)"; head -30 "$S/build18.log"; exit 2; }
  EXTRA=(-x "gritsbin=$S/grits")
fi
if [ "$TIER" = "replay" ]; then
  "$S/vcheck" -id "$ID" -replay "$1" -verif "$VERIF" -repo "$REPO" -scratch "$S"
  exit $?
fi
"$S/vcheck" -id "$ID" -tier "$TIER" -seed "${VERIF_SEED:-0}" -verif "$VERIF" -repo "$REPO" -scratch "$S" "${EXTRA[@]}" "$@"
