#!/bin/bash
# Builds the framework from files on disk only and pre-warms the Go build cache.
set -e
VERIF="$(cd "$(dirname "$0")" && pwd)"
export GOFLAGS=-mod=mod GOPROXY=off GOSUMDB=off GOTOOLCHAIN=local GOCACHE="$VERIF/.gocache" CGO_ENABLED=0
mkdir -p "$VERIF/bin" "$VERIF/evidence"
(cd "$VERIF/engine/vinstr" && go build -o "$VERIF/bin/vinstr" .)
# warm the cache: instrumented build of the current tree
base=/dev/shm; [ -d "$base" ] && [ -w "$base" ] || base=/var/tmp
S="$(mktemp -d "$base/verif.XXXXXX")"
trap 'rm -rf "$S"' EXIT
"$VERIF/bin/vinstr" -src "${VERIF_REPO:-/repo}" -dst "$S"
cp -r "$VERIF/engine/zverif" "$S/zverif"
(cd "$S" && go build -o "$S/vcheck" ./zverif/cmd/vcheck)
# warm the race-enabled standard library and packages
R="$S/plain"; mkdir -p "$R"
"$VERIF/bin/vinstr" -plain -src "${VERIF_REPO:-/repo}" -dst "$R"
mkdir -p "$R/zverif/cmd" && cp -r "$VERIF/engine/zverif/cmd/c13run" "$R/zverif/cmd/"
(cd "$R" && CGO_ENABLED=1 go build -race -o "$S/c13run" ./zverif/cmd/c13run)
# warm the full binary build (cmd, webserver, benchmarks and their dependencies)
F="$S/full"; mkdir -p "$F"
rsync -a --exclude .git --exclude assets --exclude examples --exclude seed --exclude '*_test.go' "${VERIF_REPO:-/repo}/" "$F/"
(cd "$F" && go build -o "$S/grits" .)
echo setup ok
