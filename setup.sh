#!/bin/bash
# Builds the framework from files on disk only and pre-warms the Go build cache.
set -e
VERIF="$(cd "$(dirname "$0")" && pwd)"
export GOFLAGS=-mod=mod GOPROXY=off GOSUMDB=off GOTOOLCHAIN=local GOCACHE="$VERIF/.gocache" CGO_ENABLED=0
mkdir -p "$VERIF/bin" "$VERIF/evidence"
(cd "$VERIF/engine/vinstr" && go build -o "$VERIF/bin/vinstr" .)
# warm the cache: instrumented build of the current tree
base=/dev/shm; [ -d "$base" ] && [ -w "$base" ] || base=/var/tmp
S="$(mktemp -d "$base/verif.XXXXXX")"
trap 'rm -rf "$S"' EXIT
"$VERIF/bin/vinstr" -src "${VERIF_REPO:-/repo}" -dst "$S"
cp -r "$VERIF/engine/zverif" "$S/zverif"
(cd "$S" && go build -o "$S/vcheck" ./zverif/cmd/vcheck)
echo setup ok
