#!/bin/bash
# usage: tools/tc.sh <file.grits> [kind]  -- runs Grits' typechecker and the reference R-tc on one text (development aid)
K="${2:-typecheck}"
T=$(mktemp /dev/shm/tc.XXXX.json)
python3 -c "import json,sys; print(json.dumps({'property':'dev','key':'dev','replay':{'kind':'$K','program':open(sys.argv[1]).read(),'mode':0,'monitor':False,'choices':[]}}))" "$1" > $T
"$(dirname "$0")/../check.sh" C07 replay $T 2>&1 | grep -v "^WARNING"
rm -f $T
