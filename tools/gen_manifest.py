#!/usr/bin/env python3
"""Regenerates /verif/MANIFEST.json from the table below (kept next to the checks so that it stays current)."""
import json, os
V = os.path.dirname(os.path.dirname(os.path.abspath(__file__)))
MC = "stateless model checking of the implementation: exhaustive delay-bounded schedule enumeration (plus dynamic partial-order reduction in the thorough tier) of the instrumented interpreter under a controlled scheduler"
EX = "bounded-exhaustive enumeration of the input space with an independent reference model as oracle"
checks = {
 "C01": ("model_checking", MC, "Every schedule with delay <= d of every driver program, in all three execution modes with and without a monitor, is executed on the real interpreter under a controlled scheduler; no execution may panic, receive on a closed channel, use a nil channel or fail to return."),
 "C02": ("model_checking", MC, "Same exploration in both polarized modes; the oracle inspects the quiescence snapshot (live process tasks just before the heartbeat timer can fire)."),
 "C03": ("model_checking", MC, "Same exploration; all executions of all admitted configurations of one program must give a single (printed multiset, completion) outcome."),
 "C04": ("model_checking", MC + "; conformance of every explored execution against an explicit-state exploration of the reference LTS R-sem", "Every explored execution of the implementation (all three modes) prints a multiset admitted by the reference semantics, in an order the reference semantics can produce."),
 "C05": ("exploration", EX + " (reference typechecker R-tc, substructural reasons)", "All single edits of all driver/generated programs: whatever the real typechecker accepts must pass the reference usage analysis (each channel consumed exactly once modulo drop/split permitted by its mode, no shadowing binder)."),
 "C06": ("exploration", EX + " (monitor on the checker's own judgements + R-mode)", "Same program space: every judgement the real checker enters while accepting a program is inspected for the declaration of independence; every shift of every accepted type is checked against the reference preorder."),
 "C07": ("exploration", EX + " (reference typechecker R-tc, both directions)", "Same program space: verdict of the real typechecker = verdict of the independent reference typechecker wherever the latter is definite."),
 "C08": ("exploration", EX + " (reference bisimulation R-eq; equivalence laws)", "All well-formed environments of the enumerated space x all candidate pairs/triples: EqualType returns within fuel and equals the reference greatest-fixpoint bisimulation; reflexive, symmetric, transitive."),
 "C09": ("model_checking", "stateless model checking: all schedules (S-full) of Typecheck's caller/worker tasks under the controlled scheduler, fuel-bounded", "All schedules of Typecheck's two goroutines on every program/mutant/grammatical token string and on 14 scaling families at growing sizes: always an answer within the fuel, no panic before or after the return, nil implies no internal panic."),
 "C10": ("exploration", EX + " (reference well-formedness R-wf)", "All environments of <= 2/3 definitions over the enumerated type space and all annotation types in signature/process/cut positions (alone and next to a well-formed sibling annotation): accepted iff well-formed; Unfold of accepted names terminates."),
 "C11": ("exploration", "bounded-exhaustive enumeration of character strings, token strings and corpus edits; deterministic fuel as the promptness measure", "Every enumerated text makes ParseString return (no panic, no blocked error channel) within a fuel bound linear in its length, with a program or a non-empty error."),
 "C12": ("exploration", EX + " (independent tokenizer + Earley recognizer R-gram)", "Every enumerated text the real parser accepts is a sentence of the reference grammar with the same declarations; every illegal-character insertion is rejected."),
 "C13": ("exploration", "separate free-running pass of the same driver programs in an uninstrumented -race build (the cooperative scheduler hides races); programs x modes x monitor x GOMAXPROCS enumerated exhaustively (plus every program together with its corpus successor driven concurrently by two goroutines in one process), schedules not", "Go race detector over every driver program in all configurations, including the post-run API calls; complements the model-checking passes, whose atomic-block assumption it discharges."),
 "C18": ("exploration", "complete enumeration of the flag product (240 vectors) x file classes on the real binary", "Every flag vector on every file class: exit status, absence of program output when nothing may run, one diagnostic, no panic trace."),
 "C19": ("model_checking", MC + "; operation-sequence BFS (histories) with residual tasks kept schedulable; differential oracle against a fresh process", "All histories up to the stated length inside one scheduler instance, all schedules with delay <= 1: each run's verdict/prints/panics equal those of the program alone in a fresh process; leftovers never print during later runs."),
 "C14": ("model_checking", MC + "; differential oracle over all admissible renamings/permutations (E-ren)", "Every admissible renaming and declaration permutation of every driver program, and every fresh alpha-renaming of every collision-seeking binder mutant: same verdict; same outcomes (printed multiset, completion) on the explored schedules of both polarized modes."),
 "C15": ("exploration", "bounded-exhaustive enumeration of types; print/parse round trip compared structurally", "Every well-formed type of the enumerated space, under every head mode: parse(print(T)) is structurally T (modes and branch order included); no two different types print identically."),
 "C16": ("exploration", EX + " (reference mode inference R-infer; permutation/annotation invariance)", "Every accepted environment of the enumerated space: all nodes carry one of the four modes, equal to the reference inference; verdict and modes invariant under all declaration permutations and explicit annotation."),
 "C17": ("exploration", "complete enumeration of the finite mode space against a hand-written table", "All 4 modes, 16 pairs and 64 triples, all documented spellings: order laws, converse law, monotone structural rules. The space is finite and enumerated completely."),
}
built = sorted(checks)
m = {"version": 1, "setup_cmd": "./setup.sh",
 "hooks": {"guard": "verif", "enable": "none needed: every check instruments a scratch copy of /repo's working tree with engine/vinstr (no hooks are committed to the repository)",
           "baseline_off_cmd": "cd /repo && go test -vet=off -count=1 ./...", "source_commits": [], "add_only": True},
 "engines": [
  {"name": "vsched", "path": "engine/zverif/vsched", "serves_properties": ["C01", "C02", "C03", "C04", "C09", "C14", "C19"], "kind_free_text": "source instrumenter (engine/vinstr) + controlled scheduler over real Go channels + delay-bounded / full / DPOR depth-first search over schedules; reference LTS R-sem for conformance"},
  {"name": "enumerators+reference models", "path": "engine/zverif/gen, engine/zverif/ref", "serves_properties": ["C05", "C06", "C07", "C08", "C10", "C11", "C12", "C15", "C16", "C17"], "kind_free_text": "bounded-exhaustive input enumeration checked against independent reference models (R-mode, R-wf, R-infer, R-eq, R-tc, R-gram)"}],
 "checks": [], "not_applicable": [],
 "notes": "All checks rebuild an instrumented scratch copy of /repo's working tree on every invocation (check.sh). known_findings.txt lists known/fixed findings."}
for i in built:
    lvl, tech, text = checks[i]
    m["checks"].append({"property_id": i, "quick_cmd": f"./check.sh {i} quick", "thorough_cmd": f"./check.sh {i} thorough",
        "evidence_file": f"/verif/evidence/{i}.json", "replay_cmd_template": f"./check.sh {i} replay {{path}}",
        "engine": "vsched" if lvl == "model_checking" else "enumerators+reference models",
        "level_claimed": {"category": lvl, "text": text, "design_ref": f"DESIGN.md section 3, {i}"},
        "level_note": "bounds (program/type/text sizes, delay bound, horizon) as stated in the evidence 'rule'; reference models are hand-written and cross-checked; atomic blocks between channel operations; virtual time",
        "technique": tech})
props = [json.loads(l)["id"] for l in open(os.path.join(V, "properties.jsonl"))]
pending = {
}
for p in props:
    if p not in checks:
        m["not_applicable"].append({"property_id": p, "reason": pending.get(p, "not built yet")})
json.dump(m, open(os.path.join(V, "MANIFEST.json"), "w"), indent=1)
print("manifest:", len(m["checks"]), "checks,", len(m["not_applicable"]), "not claimed")
