#!/bin/bash
# usage: tools/devbuild.sh <engine-zverif-dir>  -- compile-check a staging copy of the engine
export GOFLAGS=-mod=mod GOPROXY=off GOSUMDB=off GOTOOLCHAIN=local GOCACHE=/verif/.gocache CGO_ENABLED=0
S=$(mktemp -d /dev/shm/devb.XXXX); trap 'rm -rf $S' EXIT
/verif/bin/vinstr -src /repo -dst $S && cp -r "$1" $S/zverif && (cd $S && go vet ./zverif/... 2>&1 | grep -v "^#" | head -30; go build -o /dev/null ./zverif/cmd/vcheck && echo BUILD-OK)
