#!/bin/bash
# usage: [SEEDROOT=/tmp/seed2] tools/validate_seed.sh <Cxx> <i>   -- validates $SEEDROOT/<Cxx>/seed/mutant<i>.diff in its scratch worktree
# (the demo packages under seed/ are excluded from the suite run: they are meant to fail with the mutant)
# prints: <Cxx>-m<i> apply=ok build=ok tests=pass|FAIL demo_head=<rc> demo_mutant=<rc>
P="$1"; I="$2"; W="${SEEDROOT:-/tmp/seed}/$P"
export GOFLAGS=-mod=mod GOPROXY=off GOSUMDB=off GOTOOLCHAIN=local
cd "$W" || { echo "$P-m$I no-worktree"; exit 1; }
git checkout -q -- . 2>/dev/null
[ -f "seed/mutant$I.diff" ] || { echo "$P-m$I no-diff"; exit 1; }
git apply --check "seed/mutant$I.diff" 2>/dev/null || { echo "$P-m$I apply=FAIL"; exit 1; }
RUN="$(grep -v '^#' "seed/demo$I/RUN.txt" 2>/dev/null | grep -v '^\s*$' | head -1)"
[ -n "$RUN" ] || { echo "$P-m$I no-run-cmd"; exit 1; }
timeout 600 bash -c "$RUN" > "/dev/shm/seedval.$P.$I.head.log" 2>&1; RH=$?
git apply "seed/mutant$I.diff"
B=ok; go build ./... 2>/dev/null || B=FAIL
T=FAIL
for k in 1 2 3; do
  if go test -vet=off -count=1 $(go list ./... | grep -v /seed) > "/dev/shm/seedval.$P.$I.test.log" 2>&1; then T=pass; break; fi
  # only the two known flaky tests (or load-related runtime timeouts) may fail: retry
done
timeout 600 bash -c "$RUN" > "/dev/shm/seedval.$P.$I.mut.log" 2>&1; RM=$?
git checkout -q -- .
git status --short | grep -v '^?? seed/' | grep -v '^?? seed$' | head -3
echo "$P-m$I apply=ok build=$B tests=$T demo_head=$RH demo_mutant=$RM"
