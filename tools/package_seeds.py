#!/usr/bin/env python3
"""Copies validated seeded mutants from the sub-agents' scratch worktrees into /verif/seeded/<id>/
(patch.diff, demo/, note.txt, meta.json). Detection results are merged from a try_mutant log."""
import json, os, re, shutil, sys
import os as _os
SEED = _os.environ.get("SEEDROOT", "/tmp/seed")
PREFIX = _os.environ.get("SEEDPREFIX", "")  # e.g. "r2-" for the second round
OUT = "/verif/seeded"
val = {}
for line in open(sys.argv[1]):
    m = re.match(r"(C\d+)-m(\d) apply=(\w+) build=(\w+) tests=(\w+) demo_head=(\d+) demo_mutant=(\d+)", line)
    if m:
        val[(m.group(1), m.group(2))] = dict(apply=m.group(3), build=m.group(4), tests=m.group(5), demo_head=int(m.group(6)), demo_mutant=int(m.group(7)))
det = {}
if len(sys.argv) > 2:
    for line in open(sys.argv[2]):
        m = re.match(r"seed-" + PREFIX + r"(C\d+)-m(\d) (C\d+) rc=(\d+) violations=(\d+)\s*(.*)", line)
        if m:
            det.setdefault((m.group(1), m.group(2)), {})[m.group(3)] = dict(rc=int(m.group(4)), violations=int(m.group(5)), first=m.group(6)[:300])
props = {json.loads(l)["id"]: json.loads(l) for l in open("/verif/properties.jsonl")}
for (p, i), v in sorted(val.items()):
    src = f"{SEED}/{p}/seed"
    if not os.path.exists(f"{src}/mutant{i}.diff"):
        continue
    ok = v["apply"] == "ok" and v["build"] == "ok" and v["demo_head"] == 0 and v["demo_mutant"] != 0
    d = f"{OUT}/{PREFIX}{p}-m{i}"
    os.makedirs(d, exist_ok=True)
    shutil.copy(f"{src}/mutant{i}.diff", f"{d}/patch.diff")
    if os.path.isdir(f"{d}/demo"):
        shutil.rmtree(f"{d}/demo")
    if os.path.isdir(f"{src}/demo{i}"):
        shutil.copytree(f"{src}/demo{i}", f"{d}/demo")
    note = open(f"{src}/note{i}.txt").read() if os.path.exists(f"{src}/note{i}.txt") else ""
    open(f"{d}/note.txt", "w").write(note)
    meta = {
        "id": f"{PREFIX}{p}-m{i}", "breaks_property": p, "property_title": props[p]["title"],
        "origin": "written by an independent sub-agent that saw only the property text and its own scratch worktree of /repo",
        "needs_to_manifest": note.strip().split("\n")[0:12],
        "validation": {"applies_cleanly": v["apply"] == "ok", "builds": v["build"] == "ok",
                       "existing_tests_pass_with_mutant": v["tests"] == "pass",
                       "demo_passes_on_head": v["demo_head"] == 0, "demo_fails_with_mutant": v["demo_mutant"] != 0,
                       "how": "tools/validate_seed.sh in the scratch worktree: git apply --check; demo on HEAD; apply; go build ./...; go test -vet=off -count=1 ./... (up to 3 attempts because of the two load-sensitive runtime tests); demo with the mutant; git checkout"},
        "kept": ok,
        "checks_run": det.get((p, i), {}),
    }
    json.dump(meta, open(f"{d}/meta.json", "w"), indent=1)
    print(p, i, "kept" if ok else "NOT-KEPT", v["tests"], {k: x["violations"] for k, x in det.get((p, i), {}).items()})
