#!/bin/bash
# usage: tools/try_mutant.sh <name> <patch.diff | -R:<commit>> <check-id>...
# Applies a change to a scratch COPY of /repo (never to /repo itself), runs the given checks (quick tier)
# against the copy with evidence/replays redirected to a scratch directory, prints one line per check.
set -u
NAME="$1"; PATCH="$2"; shift 2
VERIF="$(cd "$(dirname "$0")/.." && pwd)"
W="$(mktemp -d /dev/shm/mut.XXXXXX)"
trap 'rm -rf "$W"' EXIT
mkdir -p "$W/repo" "$W/out"
rsync -a --exclude .git --exclude assets --exclude seed /repo/ "$W/repo/"
case "$PATCH" in
  -R:*) for cm in $(echo "${PATCH#-R:}" | tr ',' ' '); do (cd /repo && git show "$cm") | (cd "$W/repo" && git apply -R --whitespace=nowarn -) || { echo "$NAME: PATCH-FAILED"; exit 3; }; done ;;
  *) (cd "$W/repo" && git apply --whitespace=nowarn "$PATCH") || { echo "$NAME: PATCH-FAILED"; exit 3; } ;;
esac
for ID in "$@"; do
  out="$(VERIF_REPO="$W/repo" VERIF_OUT="$W/out" "$VERIF/check.sh" "$ID" "${TIER:-quick}" ${TRY_ARGS:-} 2>&1)"
  rc=$?
  nv=$(printf '%s\n' "$out" | grep -c '^VIOLATION')
  first=$(printf '%s\n' "$out" | grep -A1 '^VIOLATION' | grep 'key=' | head -1 | cut -c1-260)
  echo "$NAME $ID rc=$rc violations=$nv $first"
  if [ "${KEEP_OUT:-}" != "" ]; then printf '%s\n' "$out" > "$KEEP_OUT.$ID.log"; fi
done
